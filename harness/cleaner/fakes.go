// Package cleaner is the model-checking harness for property C12 (each
// action runs isolated and leaves nothing behind; cleaning runs exactly at
// idle<->busy transitions). It drives the REAL
// Shared(Clean(Root(fakeDirectory), idleInvoker)) build directory creator
// and the REAL cleanRunner, both sharing ONE real cleaner.IdleInvoker,
// under the controlled scheduler of /verif/mc.
package cleaner

import (
	"context"
	"fmt"
	"os"
	"sort"
	"strings"
	"sync"
	"syscall"

	"verif/mc"

	"github.com/buildbarn/bb-remote-execution/pkg/builder"
	runner_pb "github.com/buildbarn/bb-remote-execution/pkg/proto/runner"
	"github.com/buildbarn/bb-storage/pkg/digest"
	"github.com/buildbarn/bb-storage/pkg/filesystem"
	"github.com/buildbarn/bb-storage/pkg/filesystem/path"

	"google.golang.org/grpc/codes"
	"google.golang.org/grpc/status"
	"google.golang.org/protobuf/types/known/emptypb"
)

const prop = "C12"

// Per-thread monitor record.
type thread struct {
	name string
	// call is the outer call into the code under test that is in
	// progress: "" (none), "acquire" (GetBuildDirectory / first half
	// of Run), "hold" (between GetBuildDirectory and Close), "close".
	call string
	// pre is the outcome of the cleaner call made by this thread in
	// its current acquisition: 0 none, 1 succeeded, 2 failed.
	pre int
	// post is set once this thread made its busy->idle cleaner call.
	post bool
	// created is the name of the directory this thread created in
	// the root during its current action ("" if none).
	created string
	// dir is the directory node this thread entered.
	dir *node

	// pos is the script position; callFaults is a bit set of the faults
	// injected into this thread during its current outer call (they live
	// on in local variables such as err1/err2 of the code under test).
	pos        int
	callFaults int
	finished   bool
	// chainFailed: some link of the chained cleaner failed in the cleaning
	// this thread is making (chain scenarios only; mirrored by callFaults&1).
	chainFailed bool
	// cleanedSince (relaxed monitor only): a cleaner call of another thread
	// was entered since this thread's last operation as a user.
	cleanedSince bool
	// coUser (relaxed monitor only): at some instant of the current outer
	// call another thread may have been counted as a user.
	coUser bool

	ctx       context.Context
	cancel    context.CancelFunc
	cancelled bool
}

// node of the in-memory directory tree.
type node struct {
	name     string
	isDir    bool
	children map[string]*node
	openBy   string
}

// world holds the fakes and the monitor of one execution. Its mutex is a
// real one; it is never held across a scheduling point.
type world struct {
	x  *mc.X
	mu sync.Mutex

	root *node
	// names for which a removal fault was injected: they may
	// legitimately survive.
	removalFaulted map[string]bool

	// Monitor: the monitor's OWN use count is len(holders).
	holders  map[string]bool
	cleaning string
	threads  map[string]*thread
	order    []string
	cleans   int

	faults, maxFaults   int
	cancels, maxCancels int
	// faultAt: operations at which a failure may be injected; quiet:
	// operations that are not even scheduling points in this scenario
	// (they then execute atomically with the preceding step).
	faultAt map[string]bool
	quiet   map[string]bool

	// relaxed: scenarios with YieldAfterUnlock. There a thread can be
	// parked between the IdleInvoker's locked decision (use count
	// incremented / decremented) and the instant the monitor learns about
	// it (first fake operation / return of the outer call), so the
	// monitor's own use count is no longer updated in the same atomic step
	// as the decision. The monitor then only asserts what holds under
	// EVERY placement of the decisions inside their calls: see
	// possiblyCounted / definitelyUsing.
	relaxed bool
}

// possiblyCounted: thread o may currently be counted as a user by the code
// under test (it is inside an acquisition that has not failed its cleaning,
// holds, or is inside a release that has not yet done the busy->idle
// cleaning).
func (w *world) possiblyCounted(o *thread) bool {
	return !o.finished && o.call != "" && !o.post && o.pre != 2
}

func (w *world) othersPossiblyCounted(t *thread) bool {
	for _, n := range w.order {
		if o := w.threads[n]; o != t && w.possiblyCounted(o) {
			return true
		}
	}
	return false
}

// definitelyUsing lists the threads other than t whose action is running
// whatever the placement of the decisions: those between a successful
// acquisition and the beginning of their release.
func (w *world) definitelyUsing(t *thread) []string {
	var l []string
	for _, n := range w.order {
		if o := w.threads[n]; o != t && o.call == "hold" {
			l = append(l, n)
		}
	}
	return l
}

func newWorld(x *mc.X, maxFaults, maxCancels int, faultAt, quiet []string) *world {
	fa, q := map[string]bool{}, map[string]bool{}
	for _, o := range faultAt {
		fa[o] = true
	}
	for _, o := range quiet {
		q[o] = true
	}
	return &world{
		faultAt:        fa,
		quiet:          q,
		x:              x,
		root:           &node{name: "", isDir: true, children: map[string]*node{}},
		removalFaulted: map[string]bool{},
		holders:        map[string]bool{},
		threads:        map[string]*thread{},
		maxFaults:      maxFaults,
		maxCancels:     maxCancels,
	}
}

func (w *world) addThread(name string) *thread {
	t := &thread{name: name}
	t.ctx, t.cancel = context.WithCancel(context.Background())
	w.mu.Lock()
	w.threads[name] = t
	w.order = append(w.order, name)
	w.mu.Unlock()
	return t
}

func (w *world) cur() *thread {
	t := w.x.Current()
	if t == nil {
		panic("fake called from an unmanaged goroutine")
	}
	w.mu.Lock()
	defer w.mu.Unlock()
	th := w.threads[t.Name]
	if th == nil {
		panic("fake called from unknown thread " + t.Name)
	}
	return th
}

// fail records a violation of C12 (never in the free-running race pass).
func (w *world) fail(fingerprint, format string, args ...any) {
	if w.x.Free() {
		return
	}
	w.x.FailP(prop, fingerprint, format, args...)
}

// reset declares the calling thread's local state at the entry of a fake:
// the code position (op: every fake operation is called from exactly one
// place of the code under test per outer call), its arguments and the
// thread's script position; everything else the continuation depends on is
// global state (monitor record of the thread included) and part of the key.
func (w *world) reset(t *thread, op, arg string) {
	w.mu.Lock()
	tag := fmt.Sprintf("%s#%d/%s/%s(%s)f%d", t.name, t.pos, t.call, op, arg, t.callFaults)
	w.mu.Unlock()
	w.x.ResetLocal(tag)
}

// fault is a scheduling point at the entry of fake operation op of thread t
// that may inject a failure, as long as the fault budget of the scenario
// permits. bit identifies the operation in the thread's callFaults set.
func (w *world) fault(t *thread, op, arg string, bit int) bool {
	if w.quiet[op] {
		return false
	}
	w.reset(t, op, arg)
	w.mu.Lock()
	can := w.faults < w.maxFaults && w.faultAt[op]
	w.mu.Unlock()
	if !can {
		w.x.Point(op)
		w.reset(t, op+"/ret", arg)
		return false
	}
	if w.x.Choose(op, 2) == 1 {
		// The budget may have been used up by another thread while
		// this one was parked: then the answer degrades to "no fault".
		w.mu.Lock()
		ok := w.faults < w.maxFaults
		if ok {
			w.faults++
			t.callFaults |= bit
		}
		w.mu.Unlock()
		if ok {
			w.x.Logf("FAULT injected at %s(%s) of %s", op, arg, t.name)
			w.reset(t, op+"/ret", arg)
			return true
		}
	}
	w.reset(t, op+"/ret", arg)
	return false
}

func (w *world) holderList() []string {
	var l []string
	for h := range w.holders {
		l = append(l, h)
	}
	sort.Strings(l)
	return l
}

// ---------------------------------------------------------------------------
// Monitor transitions. All are invoked at the instant the corresponding
// event becomes visible at the boundary of the code under test: on ENTRY of a
// fake (before the fake parks) and immediately on RETURN of an outer call.
// Under the controlled scheduler each such instant lies in the same atomic
// step as the lock-protected decision of the IdleInvoker that led to it, so
// the order of monitor transitions is the order of those decisions.

func (w *world) beginCall(t *thread, call string) {
	w.mu.Lock()
	defer w.mu.Unlock()
	t.call = call
	t.callFaults = 0
	if w.relaxed {
		t.coUser = w.othersPossiblyCounted(t)
		if call == "acquire" {
			for _, n := range w.order {
				if o := w.threads[n]; o != t && (o.call == "acquire" || o.call == "close") {
					o.coUser = true
				}
			}
		}
	}
	if call == "acquire" {
		t.pre, t.post, t.created, t.dir = 0, false, "", nil
	}
}

// cleanerEnter: thread t entered the Cleaner.
func (w *world) cleanerEnter(t *thread) {
	w.mu.Lock()
	defer w.mu.Unlock()
	w.cleans++
	if w.cleaning != "" {
		w.fail("overlap/cleaner-cleaner", "cleaner entered by %s while a cleaner call by %s is still in progress", t.name, w.cleaning)
	}
	if w.holders[t.name] {
		// This thread is a user: this must be the busy->idle
		// transition, i.e. it must be the last user.
		delete(w.holders, t.name)
		t.post = true
		if w.relaxed {
			if l := w.definitelyUsing(t); len(l) > 0 {
				w.fail("overlap/cleaner-action", "cleaner entered by releasing %s while actions of %v are still running (not a busy->idle transition)", t.name, l)
			}
		} else if len(w.holders) > 0 {
			w.fail("overlap/cleaner-action", "cleaner entered by releasing %s while actions of %v are still running (not a busy->idle transition)", t.name, w.holderList())
		}
	} else {
		switch {
		case t.call != "acquire":
			w.fail("spurious-clean", "cleaner entered by %s outside an idle<->busy transition (call=%q post=%v)", t.name, t.call, t.post)
		case t.pre != 0:
			w.fail("spurious-clean", "cleaner entered a second time by %s within one acquisition", t.name)
		case w.relaxed:
			if l := w.definitelyUsing(t); len(l) > 0 {
				w.fail("overlap/cleaner-action", "cleaner entered by acquiring %s while actions of %v are running (not an idle->busy transition)", t.name, l)
			}
		case len(w.holders) > 0:
			w.fail("overlap/cleaner-action", "cleaner entered by acquiring %s while actions of %v are running (not an idle->busy transition)", t.name, w.holderList())
		}
	}
	if w.relaxed {
		// Whoever is still a user in the monitor's eyes must not operate
		// on the environment any more (checked at its next operation).
		for h := range w.holders {
			w.threads[h].cleanedSince = true
		}
	}
	w.cleaning = t.name
}

func (w *world) cleanerExit(t *thread, failed bool) {
	w.mu.Lock()
	defer w.mu.Unlock()
	if w.cleaning == t.name {
		w.cleaning = ""
	}
	if !t.post && t.call == "acquire" {
		if failed {
			t.pre = 2
		} else {
			t.pre = 1
		}
	}
}

// use: thread t touches the shared environment as part of an action
// (directory operation, runner call). The first such touch of an acquisition
// is the instant at which the action starts.
func (w *world) use(t *thread, what string) {
	w.mu.Lock()
	defer w.mu.Unlock()
	if w.cleaning != "" {
		w.fail("overlap/action-cleaner", "%s by %s while a cleaner call by %s is in progress", what, t.name, w.cleaning)
	}
	if w.holders[t.name] {
		if t.cleanedSince {
			w.fail("overlap/cleaner-action", "%s by %s: a cleaner call ran between two operations of this action", what, t.name)
		}
		return
	}
	if t.post {
		w.fail("use-after-release", "%s by %s after its busy->idle cleaning", what, t.name)
		return
	}
	switch t.pre {
	case 2:
		w.fail("start-after-failed-clean", "%s by %s although the cleaning before it failed", what, t.name)
	case 0:
		if w.relaxed {
			if !t.coUser && !w.othersPossiblyCounted(t) {
				w.fail("missing-clean/idle-to-busy", "%s by %s starts an action without a preceding cleaner call although no other thread can have been a user during its acquisition", what, t.name)
			}
		} else if len(w.holders) == 0 {
			w.fail("missing-clean/idle-to-busy", "%s by %s starts an action on an idle->busy transition without a preceding cleaner call", what, t.name)
		}
	}
	// (t.pre == 1: this thread cleaned successfully; anybody who became a
	// user during that cleaning has already been reported as an overlap.)
	w.holders[t.name] = true
	t.cleanedSince = false
}

// endCall: an outer call of thread t returned. released tells whether the
// thread's use (if any) ended with it.
func (w *world) endCall(t *thread, call string, ok, released bool) {
	w.mu.Lock()
	defer w.mu.Unlock()
	t.call = ""
	if call == "acquire" && ok {
		t.call = "hold"
		if t.pre == 2 {
			w.fail("start-after-failed-clean", "acquisition by %s succeeded although the cleaning before it failed", t.name)
		}
		t.pre = 0
	}
	if released && w.holders[t.name] {
		delete(w.holders, t.name)
		if w.relaxed {
			// The thread's decrement happened somewhere inside the call
			// that just returned; it was the last user unless somebody
			// else may (have) be(en) counted or a cleaner call was
			// entered since its last operation.
			if !t.cleanedSince && !t.coUser && !w.othersPossiblyCounted(t) {
				w.fail("missing-clean/busy-to-idle", "%s of %s returned: busy->idle transition without a cleaner call (no other thread can be a user)", call, t.name)
			}
		} else if len(w.holders) == 0 {
			w.fail("missing-clean/busy-to-idle", "%s of %s returned: busy->idle transition without a cleaner call", call, t.name)
		}
	}
}

// ---------------------------------------------------------------------------
// Fake Cleaner.

func (w *world) clean(ctx context.Context) error {
	t := w.cur()
	w.cleanerEnter(t)
	w.x.Logf("cleaner: enter by %s", t.name)
	failed := w.fault(t, "cleaner", "", 1)
	w.cleanerExit(t, failed)
	w.x.Logf("cleaner: exit by %s failed=%v", t.name, failed)
	if failed {
		return status.Error(codes.Internal, "cleaner failed")
	}
	return nil
}

// chainLink is the i-th of n fake cleaners that the scenario puts behind the
// REAL cleaner.NewChainedCleaner: the first one is the entry of "the
// cleaning" for the monitor, the last one its exit; every link is a
// scheduling point that may fail. The cleaning failed iff SOME link failed
// ("an action does not start if the cleaning before it failed"), whatever
// the chain reports.
func (w *world) chainLink(i, n int) func(ctx context.Context) error {
	return func(ctx context.Context) error {
		t := w.cur()
		if i == 0 {
			w.cleanerEnter(t)
			w.mu.Lock()
			t.chainFailed = false
			w.mu.Unlock()
		}
		failed := w.fault(t, "cleaner", fmt.Sprintf("link%d", i), 1)
		w.mu.Lock()
		if failed {
			t.chainFailed = true
		}
		anyFailed := t.chainFailed
		w.mu.Unlock()
		w.x.Logf("cleaner link %d/%d by %s failed=%v", i+1, n, t.name, failed)
		if i == n-1 {
			w.cleanerExit(t, anyFailed)
		}
		if failed {
			return status.Error(codes.Internal, fmt.Sprintf("cleaner %d failed", i))
		}
		return nil
	}
}

// ---------------------------------------------------------------------------
// Fake BuildDirectory: in-memory tree. Methods that the code under test does
// not need panic through the nil embedded interface.

type fakeDir struct {
	builder.BuildDirectory
	w *world
	n *node
}

func (d *fakeDir) label(op string) string {
	if d.n == d.w.root {
		return "root." + op
	}
	return "dir." + op
}

func (d *fakeDir) Mkdir(name path.Component, perm os.FileMode) error {
	t := d.w.cur()
	l := d.label("Mkdir")
	d.w.use(t, l)
	failed := d.w.fault(t, l, name.String(), 2)
	d.w.mu.Lock()
	defer d.w.mu.Unlock()
	if failed {
		return syscall.EIO
	}
	if _, ok := d.n.children[name.String()]; ok {
		return syscall.EEXIST
	}
	d.n.children[name.String()] = &node{name: name.String(), isDir: true, children: map[string]*node{}}
	if d.n == d.w.root {
		t.created = name.String()
	}
	return nil
}

func (d *fakeDir) Mknod(name path.Component, perm os.FileMode, deviceNumber filesystem.DeviceNumber) error {
	t := d.w.cur()
	l := d.label("Mknod")
	d.w.use(t, l)
	if !d.w.quiet[l] {
		d.w.reset(t, l, name.String())
		d.w.x.Point(l)
		d.w.reset(t, l+"/ret", name.String())
	}
	d.w.mu.Lock()
	defer d.w.mu.Unlock()
	if _, ok := d.n.children[name.String()]; ok {
		return syscall.EEXIST
	}
	d.n.children[name.String()] = &node{name: name.String()}
	return nil
}

func (d *fakeDir) EnterBuildDirectory(name path.Component) (builder.BuildDirectory, error) {
	t := d.w.cur()
	l := d.label("Enter")
	d.w.use(t, l)
	failed := d.w.fault(t, l, name.String(), 4)
	d.w.mu.Lock()
	defer d.w.mu.Unlock()
	if failed {
		return nil, syscall.EIO
	}
	c, ok := d.n.children[name.String()]
	if !ok {
		return nil, syscall.ENOENT
	}
	if !c.isDir {
		return nil, syscall.ENOTDIR
	}
	if c.openBy != "" && c.openBy != t.name {
		d.w.fail("shared-directory", "%s enters directory %q which is in use by the action of %s", t.name, c.name, c.openBy)
	}
	c.openBy = t.name
	t.dir = c
	return &fakeDir{w: d.w, n: c}, nil
}

func (d *fakeDir) ReadDir() ([]filesystem.FileInfo, error) {
	t := d.w.cur()
	d.w.use(t, d.label("ReadDir"))
	d.w.mu.Lock()
	defer d.w.mu.Unlock()
	var names []string
	for n := range d.n.children {
		names = append(names, n)
	}
	sort.Strings(names)
	var l []filesystem.FileInfo
	for _, n := range names {
		ft := filesystem.FileTypeRegularFile
		if d.n.children[n].isDir {
			ft = filesystem.FileTypeDirectory
		}
		l = append(l, filesystem.NewFileInfo(path.MustNewComponent(n), ft, false))
	}
	return l, nil
}

func (d *fakeDir) Remove(name path.Component) error {
	t := d.w.cur()
	l := d.label("Remove")
	d.w.use(t, l)
	failed := d.w.fault(t, l, name.String(), 8)
	d.w.mu.Lock()
	defer d.w.mu.Unlock()
	if failed {
		if d.n == d.w.root {
			d.w.removalFaulted[name.String()] = true
		}
		return syscall.EIO
	}
	c, ok := d.n.children[name.String()]
	if !ok {
		return syscall.ENOENT
	}
	if c.isDir && len(c.children) > 0 {
		return syscall.ENOTEMPTY
	}
	delete(d.n.children, name.String())
	return nil
}

func (d *fakeDir) RemoveAll(name path.Component) error {
	t := d.w.cur()
	l := d.label("RemoveAll")
	d.w.use(t, l)
	failed := d.w.fault(t, l, name.String(), 16)
	d.w.mu.Lock()
	defer d.w.mu.Unlock()
	if failed {
		if d.n == d.w.root {
			d.w.removalFaulted[name.String()] = true
		}
		return syscall.EIO
	}
	if _, ok := d.n.children[name.String()]; !ok {
		return syscall.ENOENT
	}
	delete(d.n.children, name.String())
	return nil
}

func (d *fakeDir) Close() error {
	t := d.w.cur()
	l := d.label("Close")
	d.w.use(t, l)
	failed := d.w.fault(t, l, d.n.name, 32)
	d.w.mu.Lock()
	defer d.w.mu.Unlock()
	if d.n.openBy == t.name {
		d.n.openBy = ""
	}
	if failed {
		return syscall.EIO
	}
	return nil
}

// fakeCreator is a base BuildDirectoryCreator that may fail; on success it
// creates and hands out a fresh subdirectory "b<thread>" of the root (and its
// Close removes it again), so that the same directory oracles apply.
type fakeCreator struct{ w *world }

func (c *fakeCreator) GetBuildDirectory(ctx context.Context, actionDigestIfNotRunInParallel *digest.Digest) (builder.BuildDirectory, *path.Trace, error) {
	w := c.w
	t := w.cur()
	w.use(t, "base.GetBuildDirectory")
	if w.fault(t, "base.GetBuildDirectory", "", 128) {
		return nil, nil, status.Error(codes.Internal, "base creator failed")
	}
	name := "b" + t.name
	w.mu.Lock()
	n := &node{name: name, isDir: true, children: map[string]*node{}, openBy: t.name}
	w.root.children[name] = n
	t.created = name
	t.dir = n
	w.mu.Unlock()
	var trace *path.Trace
	return &ownedDir{fakeDir: fakeDir{w: w, n: n}}, trace.Append(path.MustNewComponent(name)), nil
}

// ownedDir removes itself from the root when closed.
type ownedDir struct{ fakeDir }

func (d *ownedDir) Close() error {
	t := d.w.cur()
	d.w.use(t, "base.Close")
	d.w.reset(t, "base.Close", d.n.name)
	d.w.x.Point("base.Close")
	d.w.mu.Lock()
	delete(d.w.root.children, d.n.name)
	d.n.openBy = ""
	d.w.mu.Unlock()
	d.w.reset(t, "base.Close/ret", d.n.name)
	return nil
}

func dumpNode(b *strings.Builder, n *node) {
	var names []string
	for c := range n.children {
		names = append(names, c)
	}
	sort.Strings(names)
	b.WriteByte('{')
	for _, c := range names {
		ch := n.children[c]
		b.WriteString(c)
		if ch.openBy != "" {
			b.WriteString("@" + ch.openBy)
		}
		if ch.isDir {
			dumpNode(b, ch)
		}
		b.WriteByte(',')
	}
	b.WriteByte('}')
}

// ---------------------------------------------------------------------------
// Fake base runner.

type fakeRunner struct {
	runner_pb.UnimplementedRunnerServer
	w *world
}

func (r *fakeRunner) Run(ctx context.Context, request *runner_pb.RunRequest) (*runner_pb.RunResponse, error) {
	t := r.w.cur()
	r.w.use(t, "runner.Run")
	if r.w.fault(t, "runner.Run", "", 64) {
		return nil, status.Error(codes.Internal, "runner failed")
	}
	r.w.use(t, "runner.Run(end)")
	return &runner_pb.RunResponse{}, nil
}

func (r *fakeRunner) CheckReadiness(ctx context.Context, request *runner_pb.CheckReadinessRequest) (*emptypb.Empty, error) {
	t := r.w.cur()
	r.w.use(t, "runner.CheckReadiness")
	if r.w.fault(t, "runner.CheckReadiness", "", 64) {
		return nil, status.Error(codes.Internal, "runner failed")
	}
	r.w.use(t, "runner.CheckReadiness(end)")
	return &emptypb.Empty{}, nil
}

// key renders fakes + monitor canonically. Fields that can no longer
// influence the future (records of finished calls/threads, removal faults of
// directories that are gone) are normalised away.
func (w *world) key() string {
	w.mu.Lock()
	defer w.mu.Unlock()
	var b strings.Builder
	dumpNode(&b, w.root)
	var rf []string
	for n := range w.removalFaulted {
		if _, ok := w.root.children[n]; ok {
			rf = append(rf, n)
		}
	}
	sort.Strings(rf)
	fmt.Fprintf(&b, "|rf=%v|h=%v|c=%s|f=%d|x=%d|", rf, w.holderList(), w.cleaning, w.faults, w.cancels)
	for _, n := range w.order {
		t := w.threads[n]
		switch {
		case t.finished:
			fmt.Fprintf(&b, "%s:done;", n)
		case t.call == "":
			fmt.Fprintf(&b, "%s:%d,idle,%v;", n, t.pos, t.cancelled)
		default:
			d := ""
			if t.dir != nil {
				d = t.dir.name
			}
			fmt.Fprintf(&b, "%s:%d,%s,%d,%v,%s,%s,%v,%v,%v;", n, t.pos, t.call, t.pre, t.post, t.created, d, t.cancelled, t.cleanedSince, t.coUser)
		}
	}
	return b.String()
}
