package outputs

import (
	"fmt"
	"os"
	"sort"
	"strings"
	"testing"

	"verif/mc"
)

// ---------------------------------------------------------------------------
// Alphabets

var allWDs = []string{"", ".", "a", "a/b", "..", "a/../..", "a/.."}

var allPaths = []string{"x", "a/x", "./x", "a//x", "../x", "a/../x", "x/y", ".", "", "a/b/..", "/abs"}

type thing struct {
	name string
	n    *node // nil = remove whatever is there
}

func dirOf(kv ...any) *node {
	d := newDir()
	for i := 0; i < len(kv); i += 2 {
		d.children[kv[i].(string)] = kv[i+1].(*node)
	}
	return d
}

var (
	tFile    = thing{"file", newFile("A", false)}
	tXFile   = thing{"xfile", newFile("A", true)}
	tFileB   = thing{"fileB", newFile("B", false)}
	tEmpty   = thing{"file0", newFile("", false)}
	tSymlink = thing{"symlink", newSymlink("../t")}
	tAbsLink = thing{"abslink", newSymlink("/abs/t")}
	tFifo    = thing{"fifo", newFifo()}
	tRemove  = thing{"rm", nil}
	tDir0    = thing{"dir0", newDir()}
	// identical sibling subdirectories, a fifo inside, an empty file and an
	// empty directory (equal digests), exec and non-exec file of equal bytes
	tDir = thing{"dir", dirOf(
		"f", newFile("A", false), "g", newFile("A", true), "s", newSymlink("f"), "p", newFifo(), "z", newFile("", false),
		"d", dirOf("f", newFile("A", false)), "e", dirOf("f", newFile("A", false)), "o", newDir())}
	// depth 3, a directory equal to a deeper one stored earlier
	tDeep = thing{"deep", dirOf("c", newDir(), "d", dirOf("d", dirOf("f", newFile("B", true)), "e", newDir()), "e", dirOf("f", newFile("B", true)))}
)

var menuFull = []thing{tFile, tXFile, tFileB, tSymlink, tFifo, tRemove, tDir0, tDir, tDeep}
var menuQuick = []thing{tFile, tXFile, tSymlink, tFifo, tDir0, tDir}
var menuQuick5 = []thing{tXFile, tSymlink, tFifo, tDir}

func tier() string {
	if t := os.Getenv("MC_TIER"); t != "" {
		return t
	}
	return "quick"
}

// ---------------------------------------------------------------------------
// Seq family 1: declared paths x produced things ("paths-*", "faults", ...)

type pstate struct {
	pre     int
	paths   []string
	legF    []string
	legD    []string
	things  []int      // per declared index: menu index, -1 = the action does not touch it
	started bool       // a thing has been chosen: no more paths
	locs    [][]string // oracle-resolved locations of paths (cache)
	bad     bool       // some declared path escapes
}

type pcfg struct {
	name     string
	wd       string
	paths    []string
	maxPaths int
	menu     []thing
	pres     []*node  // pre-existing input roots selectable as first op (index 0 = empty is implicit)
	legacy   []string // alphabet for output_files / output_directories ops
	depth    map[string]int
	final    func(fail failFn, in *input) int
}

func (cfg *pcfg) key(s *pstate) string {
	return fmt.Sprintf("%d|%q|%q|%q|%v", s.pre, s.paths, s.legF, s.legD, s.things)
}

func (cfg *pcfg) locs(s *pstate) ([][]string, bool) { return s.locs, !s.bad }

func (cfg *pcfg) input(s *pstate) *input {
	in := &input{wd: cfg.wd, paths: s.paths, legacyF: s.legF, legacyD: s.legD}
	if s.pre > 0 {
		in.pre = cfg.pres[s.pre-1]
	}
	locs, ok := cfg.locs(s)
	if ok {
		for i, t := range s.things {
			if t >= 0 {
				in.action = append(in.action, put{loc: locs[i], thing: cfg.menu[t].n})
			}
		}
		// parents before children; stable for equal depth
		sort.SliceStable(in.action, func(i, j int) bool {
			a, b := in.action[i].loc, in.action[j].loc
			if len(a) != len(b) {
				return len(a) < len(b)
			}
			return locString(a) < locString(b)
		})
	}
	return in
}

func pathSeq(cfg *pcfg) *mc.Seq {
	var ops []mc.SeqOp
	for pi := range cfg.pres {
		pi := pi
		ops = append(ops, mc.SeqOp{
			Name: fmt.Sprintf("pre=%s", cfg.pres[pi].dump()),
			Enabled: func(s any) bool {
				st := s.(*pstate)
				return st.pre == 0 && len(st.paths)+len(st.legF)+len(st.legD) == 0
			},
			Do: func(c *mc.SeqCtx, s any) { s.(*pstate).pre = pi + 1 },
		})
	}
	for _, p := range cfg.paths {
		p := p
		ops = append(ops, mc.SeqOp{
			Name:    fmt.Sprintf("path+=%q", p),
			Enabled: func(s any) bool { st := s.(*pstate); return !st.started && len(st.paths) < cfg.maxPaths },
			Do: func(c *mc.SeqCtx, s any) {
				st := s.(*pstate)
				st.paths = append(st.paths, p)
				st.things = append(st.things, -1)
				loc, ok := resolveDeclared(cfg.wd, p)
				st.locs = append(st.locs, loc)
				if !ok {
					st.bad = true
				}
			},
		})
	}
	for _, p := range cfg.legacy {
		p := p
		ops = append(ops, mc.SeqOp{
			Name:    fmt.Sprintf("output_files+=%q", p),
			Enabled: func(s any) bool { st := s.(*pstate); return !st.started && len(st.legF) < 1 },
			Do:      func(c *mc.SeqCtx, s any) { st := s.(*pstate); st.legF = append(st.legF, p) },
		}, mc.SeqOp{
			Name:    fmt.Sprintf("output_directories+=%q", p),
			Enabled: func(s any) bool { st := s.(*pstate); return !st.started && len(st.legD) < 1 },
			Do:      func(c *mc.SeqCtx, s any) { st := s.(*pstate); st.legD = append(st.legD, p) },
		})
	}
	for i := 0; i < cfg.maxPaths; i++ {
		for ti := range cfg.menu {
			i, ti := i, ti
			ops = append(ops, mc.SeqOp{
				Name: fmt.Sprintf("out%d:=%s", i, cfg.menu[ti].name),
				Enabled: func(s any) bool {
					st := s.(*pstate)
					if i >= len(st.paths) {
						return false
					}
					for j := i; j < len(st.things); j++ {
						if st.things[j] >= 0 {
							return false // things are chosen in index order
						}
					}
					locs, ok := cfg.locs(st)
					if !ok || len(locs[i]) == 0 {
						return false // rejected command / the input root itself
					}
					for j := 0; j < i; j++ {
						if locString(locs[j]) == locString(locs[i]) {
							return false // alias of an earlier declared path
						}
					}
					return true
				},
				Do: func(c *mc.SeqCtx, s any) { st := s.(*pstate); st.things[i] = ti; st.started = true },
			})
		}
	}
	return &mc.Seq{
		Name:  cfg.name,
		Props: []string{prop},
		New:   func(c *mc.SeqCtx) any { return &pstate{} },
		Ops:   ops,
		Key:   func(s any) string { return cfg.key(s.(*pstate)) },
		Final: func(c *mc.SeqCtx, s any) {
			in := cfg.input(s.(*pstate))
			n := cfg.final(func(fp, format string, args ...any) { c.FailP(prop, fp, format, args...) }, in)
			c.Logf("terminal check: %d executions of the real OutputHierarchy; base input %s", n, in)
		},
		Depth:  cfg.depth,
		Panics: []string{prop},
	}
}

// finalDecoys: each input without and with decoy files at unrelated locations.
func finalDecoys(fail failFn, in *input) int {
	failed := false
	f := func(fp, format string, args ...any) { failed = true; fail(fp, format, args...) }
	runOne(f, in)
	if failed {
		return 1
	}
	v := *in
	v.decoys = true
	runOne(f, &v)
	return 2
}

// finalFormats: every OutputDirectoryFormat value (3 = undefined value) and
// the worker-side force flag.
func finalFormats(fail failFn, in *input) int {
	failed := false
	f := func(fp, format string, args ...any) { failed = true; fail(fp, format, args...) }
	n := 0
	for _, c := range []struct {
		format int32
		force  bool
	}{{0, false}, {1, false}, {2, false}, {3, false}, {0, true}} {
		v := *in
		v.format, v.force = c.format, c.force
		runOne(f, &v)
		n++
		if failed {
			break
		}
	}
	return n
}

func finalVirtual(fail failFn, in *input) int { return finalBackend(fail, in, runVirtual, true) }
func finalNaive(fail failFn, in *input) int   { return finalBackend(fail, in, runNaive, false) }

// finalBackend: Tree-only and Tree-and-Directory format, without and with
// decoys, through a real BuildDirectory implementation. Then the fault
// letters of that implementation's two-pass UploadFile (digest pass, transfer
// pass), for the Tree-only format without decoys: naive - one run per
// non-empty file that the fault-free run opened, in which that file is
// rewritten in place (same length) right after the digest pass has read its
// last byte; virtual - one run in which every produced file was digested
// with other bytes before it got its final contents (a remembered digest
// must not survive the write).
func finalBackend(fail failFn, in *input, run func(failFn, *input) *world, virtual bool) int {
	failed := false
	f := func(fp, format string, args ...any) { failed = true; fail(fp, format, args...) }
	n := 0
	var first *world
	for _, format := range []int32{0, 2} {
		for _, decoys := range []bool{false, true} {
			v := *in
			v.format, v.decoys = format, decoys
			w := run(f, &v)
			if first == nil {
				first = w
			}
			n++
			if failed {
				return n
			}
		}
	}
	if first == nil {
		return n
	}
	for _, loc := range dedupSorted(first.opened) {
		v := *in
		v.fault = fault{kind: faultRewrite, arg: loc}
		w := run(f, &v)
		n++
		if failed {
			return n
		}
		if !w.hit {
			panic("harness: rewrite fault at " + loc + " did not fire; input " + v.String())
		}
	}
	if virtual {
		v := *in
		v.fault = fault{kind: faultStaleDigest}
		run(f, &v)
		n++
	}
	return n
}

// finalFaults: fault-free plus every single fault position, for the Tree-only
// and the Tree-and-Directory format.
func finalFaults(fail failFn, in *input) int {
	failed := false
	f := func(fp, format string, args ...any) { failed = true; fail(fp, format, args...) }
	n := 0
	for _, format := range []int32{0, 2} {
		v := *in
		v.format = format
		n += runWithFaults(f, &v, faultPutAll, faultPutFirst, faultReadDir, faultMkdir, faultLstat)
		if failed {
			break
		}
	}
	return n
}

// ---------------------------------------------------------------------------
// Seq family 2: exhaustive produced hierarchies below one output directory

// slot: a position in the produced directory "x" that an op can fill.
type slot struct {
	loc  []string
	name string
	n    *node
}

func treeSlots(dirDepth int, leaves []slot, dirNames []string) []slot {
	// directories at nesting level 1 (x itself) .. dirDepth
	var out []slot
	var rec func(prefix []string, level int)
	rec = func(prefix []string, level int) {
		for _, l := range leaves {
			out = append(out, slot{loc: append(append([]string(nil), prefix...), l.name), n: l.n})
		}
		if level < dirDepth {
			for _, d := range dirNames {
				loc := append(append([]string(nil), prefix...), d)
				out = append(out, slot{loc: loc, n: newDir()})
				rec(loc, level+1)
			}
		}
	}
	rec(nil, 1)
	for i := range out {
		out[i].name = locString(out[i].loc)
	}
	return out
}

type tstate struct {
	tree  *node // contents of x
	count int
	last  int // index of the last slot added (slots are added in list order: canonical)
}

type tcfg struct {
	name  string
	slots []slot
	depth map[string]int
	final func(fail failFn, in *input) int
	// inputs derived from one produced tree
	inputs func(tree *node) []*input
}

func treeSeq(cfg *tcfg) *mc.Seq {
	var ops []mc.SeqOp
	for si := range cfg.slots {
		si := si
		sl := cfg.slots[si]
		ops = append(ops, mc.SeqOp{
			Name: "add " + sl.name + "=" + sl.n.dump(),
			Enabled: func(s any) bool {
				st := s.(*tstate)
				if si <= st.last {
					return false // slots in list order (parents precede their children in the list)
				}
				parent := st.tree.lookup(sl.loc[:len(sl.loc)-1])
				return parent != nil && parent.kind == kDir && parent.children[sl.loc[len(sl.loc)-1]] == nil
			},
			Do: func(c *mc.SeqCtx, s any) {
				st := s.(*tstate)
				applyPut(st.tree, put{loc: sl.loc, thing: sl.n})
				st.count++
				st.last = si
			},
		})
	}
	return &mc.Seq{
		Name:  cfg.name,
		Props: []string{prop},
		New:   func(c *mc.SeqCtx) any { return &tstate{tree: newDir(), last: -1} },
		Ops:   ops,
		Key:   func(s any) string { st := s.(*tstate); return fmt.Sprintf("%d|%s", st.last, st.tree.dump()) },
		Final: func(c *mc.SeqCtx, s any) {
			st := s.(*tstate)
			n := 0
			for _, in := range cfg.inputs(st.tree) {
				n += cfg.final(func(fp, format string, args ...any) { c.FailP(prop, fp, format, args...) }, in)
				if c.Failed() {
					break
				}
			}
			c.Logf("terminal check: %d executions of the real OutputHierarchy on produced tree x=%s", n, st.tree.dump())
		},
		Depth:  cfg.depth,
		Panics: []string{prop},
	}
}

func treeInputs(tree *node) []*input {
	x := []string{"x"}
	return []*input{
		// the produced tree as declared output directory "x"
		{wd: "", paths: []string{"x"}, action: []put{{loc: x, thing: tree}}},
	}
}

func treeInputsRoot(tree *node) []*input {
	x := []string{"a", "x"}
	return []*input{
		// the same tree below the working directory, declared through an
		// aliasing path, together with the input root itself (nested Trees)
		{wd: "a", paths: []string{"./x", ".."}, action: []put{{loc: x, thing: tree}}},
	}
}

// ---------------------------------------------------------------------------

func sanitize(s string) string {
	if s == "" {
		return "empty"
	}
	r := strings.NewReplacer("/", "_", ".", "dot")
	return r.Replace(s)
}

func TestMC(t *testing.T) {
	quick := tier() == "quick"
	var seqs []*mc.Seq

	// 1. All working directories x all output path lists of length <= 3 x
	// produced things at the declared locations.
	menu := menuFull
	if quick {
		menu = menuQuick
	}
	for _, wd := range allWDs {
		// quick: the working directories that resolve like another one
		// (".", "a/..") and the deepest one get one op less.
		qd, m := 5, menu
		if wd == "." || wd == "a/.." || wd == "a/b" {
			qd = 4
		} else if quick {
			m = menuQuick5
		}
		seqs = append(seqs, pathSeq(&pcfg{
			name: "paths-wd-" + sanitize(wd), wd: wd, paths: allPaths, maxPaths: 3, menu: m,
			depth: map[string]int{"quick": qd, "thorough": 6},
			final: finalDecoys,
		}))
	}

	// 1b. Beyond the stated alphabet: several ".." from a nested working
	// directory (back to the input root, and one step too far).
	seqs = append(seqs, pathSeq(&pcfg{
		name: "paths-updirs", wd: "a/b", paths: []string{"../..", "../../x", "../../..", "..", "x", "../../a/b/../../x/"}, maxPaths: 3, menu: menuQuick,
		depth: map[string]int{"quick": 5, "thorough": 6},
		final: finalDecoys,
	}))

	// 2. Produced hierarchies: every tree of <= N nodes over the slot
	// grammar (nesting depth 3), all OutputDirectoryFormat values.
	leaves := []slot{{name: "f", n: newFile("A", false)}, {name: "g", n: newFile("A", true)}, {name: "s", n: newSymlink("f")}, {name: "p", n: newFifo()}}
	seqs = append(seqs, treeSeq(&tcfg{
		name: "trees-formats", slots: treeSlots(3, leaves, []string{"d", "e"}),
		depth: map[string]int{"quick": 5, "thorough": 7},
		final: finalFormats, inputs: treeInputs,
	}))
	seqs = append(seqs, treeSeq(&tcfg{
		name: "trees-nested-root", slots: treeSlots(3, leaves[:2], []string{"d", "e"}),
		depth: map[string]int{"quick": 5, "thorough": 7},
		final: finalFormats, inputs: treeInputsRoot,
	}))

	// 3. Single faults (CAS Put per blob, ReadDir, Mkdir, Lstat) at every
	// position of every input of a smaller grammar.
	seqs = append(seqs, pathSeq(&pcfg{
		name: "faults", wd: "", paths: []string{"x", "a/x", ".", "a/b/..", "x/y"}, maxPaths: 2,
		menu:  []thing{tFile, tEmpty, tSymlink, tDir0, tDir, tDeep},
		depth: map[string]int{"quick": 4, "thorough": 4},
		final: finalFaults,
	}))
	seqs = append(seqs, treeSeq(&tcfg{
		name: "trees-faults", slots: treeSlots(3, leaves[:3], []string{"d", "e"}),
		depth: map[string]int{"quick": 4, "thorough": 6},
		final: finalFaults, inputs: treeInputs,
	}))

	// 4. Input roots that already contain things where parents are needed.
	seqs = append(seqs, pathSeq(&pcfg{
		name: "preexisting", wd: "a", paths: []string{"x", "b/x", "../x", "x/y", "."}, maxPaths: 2,
		menu:  []thing{tFile, tDir},
		pres:  []*node{dirOf("a", newDir()), dirOf("a", dirOf("b", dirOf("k", newFile("K", true)), "x", newDir())), dirOf("a", newFile("F", false)), dirOf("a", dirOf("x", newSymlink("b"))), dirOf("x", newFile("old", true))},
		depth: map[string]int{"quick": 5, "thorough": 5},
		final: func(fail failFn, in *input) int {
			return runWithFaults(fail, in, faultMkdir)
		},
	}))

	// 5. REv2.0 output_files/output_directories next to output_paths: this
	// implementation documents that it only supports output_paths; the
	// legacy fields must not disturb what is reported for output_paths.
	seqs = append(seqs, pathSeq(&pcfg{
		name: "legacy-fields", wd: "a", paths: []string{"x", "../x", "b/.."}, maxPaths: 2,
		menu: []thing{tXFile, tDir}, legacy: []string{"x", "../y", "b"},
		depth: map[string]int{"quick": 6, "thorough": 6},
		final: finalDecoys,
	}))

	// 6. The same oracles through the real virtualBuildDirectory over the
	// real in-memory PrepopulatedDirectory with pool-backed files.
	seqs = append(seqs, pathSeq(&pcfg{
		name: "virtual-paths", wd: "a", paths: []string{"x", "../x", "./x", "x/y", ".", "b/..", "b//x"}, maxPaths: 2,
		menu:  []thing{tFile, tXFile, tEmpty, tSymlink, tFifo, tDir, tDeep},
		pres:  []*node{dirOf("a", dirOf("b", dirOf("k", newFile("K", true))))},
		depth: map[string]int{"quick": 4, "thorough": 5},
		final: finalVirtual,
	}))
	seqs = append(seqs, treeSeq(&tcfg{
		name: "virtual-trees", slots: treeSlots(3, leaves, []string{"d", "e"}),
		depth: map[string]int{"quick": 4, "thorough": 6},
		final: finalVirtual, inputs: treeInputs,
	}))

	// 7. And through the real naiveBuildDirectory on a scratch directory of
	// the local file system (kept small: every run does real system calls).
	seqs = append(seqs, pathSeq(&pcfg{
		name: "naive-paths", wd: "a", paths: []string{"x", "../x", "./x", "x/y", ".", "b//x"}, maxPaths: 2,
		menu:  []thing{tFile, tXFile, tSymlink, tFifo, tDir, tDeep},
		pres:  []*node{dirOf("a", dirOf("b", dirOf("k", newFile("K", true))))},
		depth: map[string]int{"quick": 3, "thorough": 4},
		final: finalNaive,
	}))

	// 8. The executor's own control flow: the same inputs through the real
	// localBuildExecutor.Execute() (naive and virtual build directory, fake
	// runner that produces the outputs and then succeeds, exits non-zero,
	// times out or loses its connection).
	for _, wd := range []string{"", "a"} {
		seqs = append(seqs, pathSeq(&pcfg{
			name: "executor-wd-" + sanitize(wd), wd: wd, paths: []string{"x", "b/x", "../x", "."}, maxPaths: 2,
			menu:  []thing{tFile, tXFile, tSymlink, tFifo, tDir},
			depth: map[string]int{"quick": 4, "thorough": 4},
			final: finalExecutor,
		}))
	}

	mc.Main(t, nil, seqs)
}
