package sched

// Oracles of C01, C02, C03, C06 and C07(a). Every clause cites the phrase of
// the property statement (/verif/properties.jsonl) it implements. Shared
// bookkeeping (task identities, worker assignments, reports) is always
// maintained; violations are recorded through m.fail(prop, ...), which
// ignores properties other than the one being checked.

import (
	"context"
	"encoding/json"
	"fmt"
	"os"
	"regexp"
	"runtime/debug"
	"sort"
	"strconv"
	"strings"
	"sync"
	"time"

	"verif/mc"

	remoteexecution "github.com/bazelbuild/remote-apis/build/bazel/remote/execution/v2"
	"github.com/buildbarn/bb-remote-execution/pkg/proto/remoteworker"
	"github.com/buildbarn/bb-remote-execution/pkg/scheduler"
	"github.com/buildbarn/bb-remote-execution/pkg/scheduler/invocation"
	"google.golang.org/grpc/codes"
	"google.golang.org/grpc/status"
	"google.golang.org/protobuf/proto"
	"google.golang.org/protobuf/types/known/emptypb"
)

type report struct {
	worker string
	resp   *remoteexecution.ExecuteResponse
}

type taskInfo struct {
	id         int
	ref        any
	digestHash string
	doNotCache bool
	background bool

	// Worker interaction.
	starts       int
	startWorkers []string
	// Workers the task was ever seen assigned to at a quiescent point
	// (includes workers that were handed the task while blocked in
	// Synchronize and never saw the response).
	assignedWorkers []string
	reports         []report
	// Largest number of consecutive requests in which a worker that was
	// told to run this task did not claim to be running it.
	maxRerequests int
	// Number of Executing responses that handed THIS task to a given worker
	// (worker name -> count), whatever the worker reported in between.
	handouts map[string]int

	// Learners: the first one seen attached; later ones follow through
	// fakeLearner.grantedRetry.
	firstLearner *fakeLearner

	// Completion, as first observed at a quiescent point.
	completedSeen  bool
	finalResp      *remoteexecution.ExecuteResponse
	finalClass     string // "worker-success", "worker-failure", "scheduler"
	finalProblem   string // why the final response is not faithful ("" = fine)
	finalTag       string // refinement of the fingerprint of finalProblem ("" = none)
	completionTick int    // scheduler time (bq.now) when the completion was first observed
	gone           bool
}

func (ti *taskInfo) lastLearner() *fakeLearner {
	l := ti.firstLearner
	for l != nil && l.grantedRetry != nil {
		l = l.grantedRetry
	}
	return l
}

func (ti *taskInfo) retriesGranted() int {
	n := 0
	for l := ti.firstLearner; l != nil && l.grantedRetry != nil; l = l.grantedRetry {
		n++
	}
	return n
}

type monitors struct {
	w *world

	snap  *scheduler.VerifSnap
	locks int
	key   string

	tasks    map[int]*taskInfo
	taskOf   map[any]int    // task Ref -> id
	opTask   map[string]int // operation name -> id
	retries  int            // retries granted so far (all tasks)
	finished bool
	// Every ExecuteResponse a harness worker ever produced, by marker.
	reportRecs map[string]*reportRec
	// lastWaiter: operation name -> latest scheduler time (bq.now, in ticks)
	// at which some harness stream was attached to the operation and its
	// client was still there (see noteWaiter). Harness-owned lower bound of
	// the instant from which the scheduler may count the no-waiter timeout.
	lastWaiter map[string]int
}

func newMonitors(w *world) *monitors {
	return &monitors{w: w, tasks: map[int]*taskInfo{}, taskOf: map[any]int{}, opTask: map[string]int{}, reportRecs: map[string]*reportRec{}, lastWaiter: map[string]int{}}
}

func (m *monitors) install() {
	x := m.w.x
	x.OnQuiescent(m.refresh)
	// The key is recomputed by refresh() at every quiescent point; the
	// engine calls this (twice) before it releases the next thread.
	x.SetKey(func() string { return m.key })
	x.Monitor("C01", func() {
		if m.locks == 0 {
			m.checkC01(m.snap)
		}
	})
	x.Monitor("C03", func() {
		if m.locks == 0 {
			m.checkC03(m.snap)
		}
	})
	x.Monitor("C06", func() {
		if m.locks == 0 {
			m.checkC06(m.snap)
		}
	})
	x.Monitor("C07", func() {
		if m.locks == 0 {
			m.checkC07(m.snap)
		}
	})
}

// ---------------------------------------------------------------------------
// Small helpers

var (
	rePlatform = regexp.MustCompile(`main\|\{"properties":\[\{"name":"os","value":"(\w+)"\}\]\}`)
	reToolKey  = regexp.MustCompile(`\{"@type":\s*"[^"]*RequestMetadata",\s*"toolInvocationId":\s*"(\w*)"\}`)
	reCorrKey  = regexp.MustCompile(`\{"@type":\s*"[^"]*RequestMetadata",\s*"correlatedInvocationsId":\s*"(\w*)"\}`)
	reBgKey    = regexp.MustCompile(`\{"@type":\s*"[^"]*BackgroundLearning"\}`)
	reHost     = regexp.MustCompile(`\{"host":"(\w+)"\}`)
	reDigest   = regexp.MustCompile(`1-([0-9a-f]{6})[0-9a-f]{58}-\d+-main`)
)

// pretty shortens the JSON-ish names of queues, invocations, workers and
// digests in violation messages.
func pretty(s string) string {
	s = rePlatform.ReplaceAllString(s, "$1")
	s = reToolKey.ReplaceAllString(s, "tool=$1")
	s = reCorrKey.ReplaceAllString(s, "corr=$1")
	s = reBgKey.ReplaceAllString(s, "background")
	s = reHost.ReplaceAllString(s, "$1")
	s = reDigest.ReplaceAllString(s, "digest:$1")
	return s
}

// fail records a violation of one property (ignored unless that property
// is the one being checked).
func (m *monitors) fail(prop, fingerprint, format string, args ...any) {
	if !mc.Active(prop) {
		return
	}
	m.w.x.FailP(prop, fingerprint, "%s", pretty(fmt.Sprintf(format, args...)))
}

// failAll records a violation that counts for every property served by
// the harness (panics inside the scheduler).
func (m *monitors) failAll(fingerprint, format string, args ...any) {
	for _, p := range core {
		m.fail(p, fingerprint, format, args...)
	}
}

func opNumber(name string) int {
	if len(name) != 36 {
		return 0
	}
	n, err := strconv.ParseInt(strings.ReplaceAll(name[24:], "-", ""), 16, 32)
	if err != nil {
		return 0
	}
	return int(n)
}

func respSummary(r *remoteexecution.ExecuteResponse) string {
	if r == nil {
		return "-"
	}
	msg := r.GetStatus().GetMessage()
	if len(msg) > 24 {
		msg = msg[:24]
	}
	return codes.Code(r.GetStatus().GetCode()).String() + "/" + strconv.Itoa(int(r.GetResult().GetExitCode())) + "/" + r.Message + "/" + msg
}

func isWorkerReport(r *remoteexecution.ExecuteResponse) bool {
	return strings.HasPrefix(r.GetMessage(), reportPrefix)
}

func reportIsSuccess(r *remoteexecution.ExecuteResponse) bool {
	return status.FromProto(r.Status).Code() == codes.OK && r.GetResult().GetExitCode() == 0
}

func workerKeyJSON(name string) string {
	b, _ := json.Marshal(workerID(name))
	return string(b)
}

func (m *monitors) findWorker(snap *scheduler.VerifSnap, name string, sizeClass uint32) (*scheduler.VerifWorker, *scheduler.VerifSizeClassQueue, int) {
	key := workerKeyJSON(name)
	var found *scheduler.VerifWorker
	var fscq *scheduler.VerifSizeClassQueue
	n := 0
	for _, pq := range snap.PlatformQueues {
		for _, scq := range pq.SizeClassQueues {
			for i := range scq.Workers {
				if scq.Workers[i].Key == key {
					n++
					if scq.SizeClass == sizeClass || found == nil {
						found, fscq = &scq.Workers[i], scq
					}
				}
			}
		}
	}
	return found, fscq, n
}

// taskID returns the harness identity of a snapshot task: the number of
// the first operation it was ever seen with (operation names are drawn
// from a counter, and a task is always created together with its first
// operation).
func (m *monitors) taskID(t *scheduler.VerifTask) int {
	if id, ok := m.taskOf[t.Ref]; ok {
		return id
	}
	id := 0
	for _, o := range t.Operations {
		if n := opNumber(o.Operation); n > 0 && (id == 0 || n < id) {
			id = n
		}
	}
	if id == 0 {
		return 0
	}
	for m.tasks[id] != nil {
		id += 1000 // cannot happen with a correct scheduler; keep identities distinct anyway
	}
	m.taskOf[t.Ref] = id
	m.tasks[id] = &taskInfo{id: id, ref: t.Ref, doNotCache: t.DoNotCache, digestHash: t.ActionDigest, handouts: map[string]int{}}
	return id
}

// workerNameOfRef extracts the harness worker name from a snapshot worker
// reference ("<queue>#{"host":"<name>"}").
func workerNameOfRef(ref string) string {
	if n, ok := workerNames.Load(ref); ok {
		return n.(string)
	}
	n := parseWorkerNameOfRef(ref)
	workerNames.Store(ref, n)
	return n
}

var workerNames sync.Map

func parseWorkerNameOfRef(ref string) string {
	i := strings.LastIndex(ref, "#")
	if i < 0 {
		return ""
	}
	var id map[string]string
	if json.Unmarshal([]byte(ref[i+1:]), &id) != nil {
		return ""
	}
	return id["host"]
}

func containsString(l []string, s string) bool {
	for _, e := range l {
		if e == s {
			return true
		}
	}
	return false
}

func digestMatches(taskDigest string, d *remoteexecution.Digest) bool {
	return d != nil && strings.Contains(taskDigest, d.Hash)
}

// ---------------------------------------------------------------------------
// Quiescent-point refresh: snapshot, bookkeeping, deferred stream checks, key

func (m *monitors) refresh() {
	w := m.w
	snap := scheduler.VerifSnapshot(w.bq)
	m.snap = snap
	m.locks = w.x.LocksHeld()
	w.mu.Lock()
	defer w.mu.Unlock()
	m.absorb(snap)
	m.key = m.buildKey(snap)
}

func (m *monitors) absorb(snap *scheduler.VerifSnap) {
	w := m.w
	now := w.clock.tick()
	present := map[int]bool{}
	for i := range snap.Tasks {
		t := &snap.Tasks[i]
		id := m.taskID(t)
		if id == 0 {
			continue
		}
		ti := m.tasks[id]
		present[id] = true
		for _, o := range t.Operations {
			if _, ok := m.opTask[o.Operation]; !ok {
				m.opTask[o.Operation] = id
			}
		}
		if l, ok := t.Learner.(*fakeLearner); ok && l != nil {
			if l.task == 0 {
				l.task = id
				if ti.firstLearner == nil {
					ti.firstLearner = l
					ti.background = l.kind == "background"
				}
			} else if l.task != id {
				m.fail("C07", "learner/shared", "learner %v is attached to task %d and to task %d", l, l.task, id)
			}
		}
		if t.CurrentWorker != "" {
			if name := workerNameOfRef(t.CurrentWorker); name != "" && !containsString(ti.assignedWorkers, name) {
				ti.assignedWorkers = append(ti.assignedWorkers, name)
			}
		}
		if t.ExecuteResponse != nil && !ti.completedSeen {
			ti.completedSeen = true
			ti.finalResp = proto.Clone(t.ExecuteResponse).(*remoteexecution.ExecuteResponse)
			// bq.now is monotone and only moves inside enter(): at the first
			// quiescent point after the completing critical section it is
			// still the time at which that section ran its clean-ups.
			ti.completionTick = min(now, nsTick(snap.Now))
			m.classifyCompletion(ti, t)
			if isNoWaitersCancellation(ti.finalResp) {
				m.checkCancelledWithLiveStream(ti, "was completed with "+respSummary(ti.finalResp))
				if why := m.abandonedTooEarly(ti, ti.completionTick); why != "" {
					ti.finalProblem = why
					ti.finalTag = "early-abandonment"
					m.fail("C06", "early-abandonment", "task %d: %s", ti.id, why)
					m.failC03EarlyAbandonment(ti, why)
				}
			}
		}
	}
	// Tasks that disappeared without ever having been seen completed:
	// the last operation was abandoned (C07: learner must be told).
	if m.locks == 0 {
		for id, ti := range m.tasks {
			if !present[id] && !ti.gone {
				ti.gone = true
				if !ti.completedSeen {
					// The only way in which a task that has not completed
					// leaves the scheduler: its last operation was removed
					// as abandoned (which cancels it for lack of clients).
					m.checkCancelledWithLiveStream(ti, "disappeared without a result, i.e. its last operation was removed as abandoned")
					if why := m.abandonedTooEarly(ti, min(now, nsTick(snap.Now))); why != "" {
						m.fail("C06", "early-abandonment", "task %d disappeared without a result (its last operation was removed as abandoned): %s", id, why)
						m.failC03EarlyAbandonment(ti, why)
					}
					if l := ti.lastLearner(); l != nil && !(l.abandonedN == 1 && l.succeeded == 0 && l.failed == 0) {
						m.fail("C07", "learner/mismatch/vanished", "task %d disappeared without a result (abandoned by its clients) but its learner %v received succeeded=%d failed=%d abandoned=%d; expected exactly one Abandoned", id, l, l.succeeded, l.failed, l.abandonedN)
					}
				}
			}
		}
	}
	// Streams: resolve their task and run the deferred checks.
	for _, a := range w.actors {
		for _, s := range a.streams {
			if s.task == 0 && s.name != "" {
				if id, ok := m.opTask[s.name]; ok {
					s.task = id
					m.onStreamTaskKnown(s)
				}
			}
			m.checkStream(s)
		}
	}
	// Last, so that the clean-ups judged above are measured against what was
	// known BEFORE this quiescent point.
	for _, a := range w.actors {
		for _, s := range a.streams {
			m.noteWaiter(s, false)
		}
	}
}

// noteWaiter records that the operation of stream s has a waiter at the
// scheduler time of the latest dump (w.mu held). Only harness-owned facts
// decide: the stream has received a message (waitExecution registers the
// waiter before its first Send and only drops it when the call returns), its
// call has not returned, and its client is still there (context not
// cancelled by the harness, no Send failure). bq.now is monotone, so the
// value of the latest dump is a lower bound of the scheduler time at which
// that waiter will leave, i.e. of the instant T0 from which a correct
// scheduler counts OperationWithNoWaitersTimeout (it arms the removal at
// bq.now + timeout when the waiter count drops to zero).
func (m *monitors) noteWaiter(s *stream, inSend bool) {
	if m.snap == nil || s.name == "" || len(s.msgs) == 0 || s.returned || s.sendFailed || s.ctx.cancelled() || (!inSend && s.doneMsg() != nil) {
		// (After its done message a stream only has to take the lock once more
		// to leave; outside that very Send it is not noted any more, so that
		// the record stays a lower bound even if a scheduling point separates
		// that last critical section from the return of the call.)
		return
	}
	now := nsTick(m.snap.Now)
	if lw, ok := m.lastWaiter[s.name]; !ok || now > lw {
		m.lastWaiter[s.name] = now
	}
}

// abandonedTooEarly: C06 "an operation nobody waits on is removed after the
// no-waiter timeout (cancelling the task if it was the last)"; C02 "an error
// the scheduler itself produced for a stated cause (... no waiting clients
// ...)". A task may only be cancelled for lack of clients once EVERY one of
// its operations has been without a waiter for the full timeout. at is an
// upper bound of the scheduler time of the cancellation (bq.now when it is
// first visible); lastWaiter is a lower bound of the time each operation
// lost its last waiter. Returns "" if the cause can be true (w.mu held).
func (m *monitors) abandonedTooEarly(ti *taskInfo, at int) string {
	var names []string
	for name, id := range m.opTask {
		if id == ti.id {
			names = append(names, name)
		}
	}
	sort.Strings(names)
	for _, name := range names {
		if lw, ok := m.lastWaiter[name]; ok && at < lw+m.w.cfg.NoWaiter {
			return fmt.Sprintf("CANCELED (no waiting clients) at scheduler tick %d although its operation %s still had a waiting client at tick %d and the no-waiter timeout is %d ticks", at, opShort(name), lw, m.w.cfg.NoWaiter)
		}
	}
	return ""
}

// failC03EarlyAbandonment: C03 "While a task for a cacheable action is queued
// or executing, any further Execute request for the same action digest
// attaches to that task ... a client leaving does not disturb the others, and
// the task is cancelled only when its last operation is ABANDONED". An
// operation counts as abandoned once nobody has waited on it for
// OperationWithNoWaitersTimeout (C06); until then its client may re-attach and
// a duplicate Execute must still find the task. A task that is cancelled / dropped
// from the in-flight map while one of its operations is still inside that
// window was not abandoned: the next duplicate request starts a second
// execution and a re-attaching client gets NOT_FOUND (w.mu held).
func (m *monitors) failC03EarlyAbandonment(ti *taskInfo, why string) {
	if ti.doNotCache || ti.background {
		return
	}
	m.fail("C03", "cancelled-before-abandoned", "task %d (cacheable action %s) was cancelled for lack of clients before its last operation was abandoned: %s; a duplicate Execute or a re-attaching WaitExecution arriving inside the window no longer finds it", ti.id, ti.digestHash, why)
}

// classifyCompletion judges the final response of a task at the moment its
// completion is first observed (C02: "carries either the ExecuteResponse
// supplied by the worker that last ran the task, or an error the scheduler
// itself produced for a stated cause"; C06: the timing clauses).
func (m *monitors) classifyCompletion(ti *taskInfo, t *scheduler.VerifTask) {
	w := m.w
	cfg := w.cfg
	r := ti.finalResp
	now := ti.completionTick
	if isWorkerReport(r) {
		ti.finalClass = "worker-failure"
		if reportIsSuccess(r) {
			ti.finalClass = "worker-success"
		}
		// C02: "the ExecuteResponse supplied by the worker that last ran the
		// task": responses are keyed by (task, execution attempt) - every
		// report carries a unique marker and is bound to the task its worker
		// had been told to run when it produced it. A response that a worker
		// supplied for another task (a stale or re-sent report that arrives
		// after the scheduler has moved the worker on) is not faithful, even
		// though it comes from the worker that currently holds this task.
		if rec := m.reportRecs[r.GetMessage()]; rec != nil && rec.forTask != 0 && rec.forTask != ti.id {
			ti.finalProblem = fmt.Sprintf("is the response that worker %s supplied for task %d (action %s), not for this task (action %s)", rec.worker, rec.forTask, digestShort(rec.digest), ti.digestHash)
			ti.finalTag = "report-for-other-task"
		} else if len(ti.reports) == 0 {
			ti.finalProblem = "carries a worker response although no worker assigned to the task reported completion of it"
		} else if last := ti.reports[len(ti.reports)-1]; !proto.Equal(last.resp, r) {
			ti.finalProblem = fmt.Sprintf("differs from the response supplied by the worker that last ran the task (%s: %s)", last.worker, respSummary(last.resp))
		}
	} else {
		ti.finalClass = "scheduler"
		st := status.FromProto(r.Status)
		msg := st.Message()
		switch {
		case st.Code() == codes.Unavailable && strings.Contains(msg, "disappeared while task was executing"):
			// C02 "an error the scheduler itself produced for a stated cause
			// (worker disappeared ...)", C06 "If a worker stops synchronizing,
			// its task fails with UNAVAILABLE after the worker timeout": some
			// worker that held the task must have been out of contact for the
			// worker timeout, counted from its LAST CONTACT, i.e. from the
			// return of its last Synchronize call (a worker parked inside a
			// long-polling Synchronize is in contact the whole time).
			//
			// Which instants the harness uses, and why no legal schedule of a
			// correct scheduler can fire this:
			//  * Return of a call. The scheduler's notion of "now" is the
			//    largest time value any call has passed to enter() so far; a
			//    correct scheduler arms the removal at (its now at return) +
			//    timeout. The harness cannot see the return itself earlier
			//    than the worker thread does, and using the tick at which
			//    the response reaches the worker thread would be unsound
			//    (Synchronize reads the clock BEFORE it queues for the lock;
			//    the clock may advance while it waits, and the scheduler
			//    legitimately stamps the return with the older value). The
			//    harness therefore uses L = the last clock value handed to the
			//    worker thread during that call (fakeClock.Now() or the value
			//    delivered by its timer): the thread passed L to enter(), so
			//    scheduler-now-at-return >= L, hence any legitimate removal
			//    happens at a scheduler time >= L + timeout.
			//  * Time of the failure: C = bq.now at the first quiescent point
			//    at which the completion is visible (= the time of the enter()
			//    that ran the clean-up; every enter() is a decision point).
			//  * The call that ran the clean-up may be the silent worker's own
			//    next call, which may already have returned at that quiescent
			//    point (its enter() runs the clean-up first, then re-creates
			//    the worker): if the worker's last returned call obtained C as
			//    its FIRST clock value, the contact before that one counts.
			//  * A worker whose current call has reached its select (so it has
			//    entered the scheduler) at a time before C has cancelled its
			//    own removal and is in contact: it cannot be the cause.
			ok := false
			for _, wn := range ti.assignedWorkers {
				a := w.byName[wn]
				if l, silent := a.lastContactBefore(now); silent && now >= l+cfg.WorkerTimeout {
					ok = true
				}
			}
			if !ok {
				ti.finalProblem = fmt.Sprintf("UNAVAILABLE (worker disappeared) at tick %d although no worker assigned to the task had been out of contact for the worker timeout of %d ticks (%s)", now, cfg.WorkerTimeout, m.contactSummary(ti.assignedWorkers))
				m.fail("C06", "early-worker-timeout", "task %d: %s (workers %v)", ti.id, ti.finalProblem, ti.assignedWorkers)
			}
		case st.Code() == codes.Unavailable && strings.Contains(msg, "disappeared while task was queued"):
			// A worker-created queue is removed QueueTimeout after the removal
			// time of its last worker (= that worker's last contact +
			// WorkerTimeout); same instants as above.
			ok := cfg.Predeclared == nil
			for _, a := range w.actors {
				if a.kind != "worker" {
					continue
				}
				if a.parkedSinceBefore(now) {
					ok = false
				} else if l, silent := a.lastContactBefore(now); silent && now < l+cfg.WorkerTimeout+cfg.QueueTimeout {
					ok = false
				}
			}
			if !ok {
				ti.finalProblem = fmt.Sprintf("UNAVAILABLE (queue removed) at tick %d although the queue's workers had not been gone for worker timeout + queue timeout (%s)", now, m.contactSummary(nil))
				m.fail("C06", "early-queue-removal", "task %d: %s", ti.id, ti.finalProblem)
			}
		case st.Code() == codes.Canceled && strings.Contains(msg, "no longer has any waiting clients"):
			// Legitimate only for a task nobody can observe any more;
			// checkC03/checkStream flag it when it is visible.
		case st.Code() == codes.Aborted && strings.HasPrefix(msg, "killed by operator "):
			ok := false
			for _, a := range w.actors {
				for k, oc := range a.ops {
					if oc.started && msg == fmt.Sprintf("killed by operator %s#%d", a.name, k) {
						ok = true
					}
				}
			}
			if !ok {
				ti.finalProblem = "carries an operator status although no operator issued that kill"
			}
		case st.Code() == codes.Internal && strings.Contains(msg, "Attempted to execute task"):
			// C02 "an error the scheduler itself produced for a stated cause
			// (... retry limit reached ...)", C06 "a task a worker keeps
			// re-requesting is failed with INTERNAL after the configured number
			// of retries". The cause is stated per ASSIGNMENT: "Attempted to
			// execute task N times ... This task may cause worker W to crash".
			// It is true only if W itself was handed this task
			// WorkerTaskRetryCount+1 times (once plus the retries) before the
			// re-request that failed it; hand-outs to another worker (the small
			// worker before the documented retry on the largest size class) do
			// not count against W. All those hand-outs were responses of earlier,
			// returned calls of W, so the per-(task, worker) counter has them.
			if mm := reHost.FindStringSubmatch(msg); mm != nil && ti.handouts[mm[1]] < cfg.RetryCount+1 {
				ti.finalProblem = fmt.Sprintf("INTERNAL (retry limit, blaming worker %s) although that worker was handed the task only %d time(s) and WorkerTaskRetryCount=%d allows %d hand-outs per assignment (hand-outs per worker: %s)", mm[1], ti.handouts[mm[1]], cfg.RetryCount, cfg.RetryCount+1, m.handoutSummary(ti))
				ti.finalTag = "retry-limit-per-assignment"
			} else if ti.maxRerequests < cfg.RetryCount+1 {
				ti.finalProblem = fmt.Sprintf("INTERNAL (retry limit) although no worker re-requested the task more than %d time(s)", cfg.RetryCount)
			}
			if ti.finalProblem != "" {
				m.fail("C06", "early-retry-limit", "task %d: %s", ti.id, ti.finalProblem)
			}
		default:
			ti.finalProblem = "is neither a worker-supplied response nor a scheduler error with a stated cause"
		}
	}
	// C07: "every learner it yields receives exactly one terminal call
	// (Succeeded, Failed or Abandoned) matching what happened".
	if l := ti.lastLearner(); l != nil {
		want := map[string][3]int{"worker-success": {1, 0, 0}, "worker-failure": {0, 1, 0}, "scheduler": {0, 0, 1}}[ti.finalClass]
		if got := [3]int{l.succeeded, l.failed, l.abandonedN}; got != want {
			m.fail("C07", "learner/mismatch/"+ti.finalClass, "task %d completed with %s (%s) but its learner %v received succeeded=%d failed=%d abandoned=%d", ti.id, ti.finalClass, respSummary(r), l, l.succeeded, l.failed, l.abandonedN)
		}
	} else {
		m.fail("C07", "learner/none", "task %d completed but no learner was ever seen attached to it", ti.id)
	}
	if t.Learner != nil {
		m.fail("C07", "learner/kept-after-completion", "task %d is completed but still holds learner %v", ti.id, t.Learner)
	}
}

// ---------------------------------------------------------------------------
// Streams (C02, C03)

func (m *monitors) onStreamStart(s *stream) {
	w := m.w
	w.mu.Lock()
	defer w.mu.Unlock()
	s.a.streams = append(s.a.streams, s)
	s.startTick = w.clock.tick()
	for id, ti := range m.tasks {
		if ti.completedSeen {
			s.completedAtStart = append(s.completedAtStart, id)
		}
	}
	sort.Ints(s.completedAtStart)
	s.retriesSeenBefore = m.retries
}

// onMessage runs inside Send (client thread). C02: "reported stages only
// advance QUEUED -> EXECUTING -> COMPLETED, except for the documented fall
// back to QUEUED when a failed action is retried on the largest size class".
func (m *monitors) onMessage(s *stream, msg streamMsg) {
	if m.w.x.Free() {
		return
	}
	w := m.w
	w.mu.Lock()
	defer w.mu.Unlock()
	n := len(s.msgs)
	if n >= 2 {
		prev := s.msgs[n-2]
		if msg.stage < prev.stage {
			retried := prev.stage == remoteexecution.ExecutionStage_EXECUTING && msg.stage == remoteexecution.ExecutionStage_QUEUED && m.retries > s.retriesSeenBefore
			if !retried && s.stageViolation == "" {
				s.stageViolation = fmt.Sprintf("stage went back from %s to %s without a size-class retry", prev.stage, msg.stage)
			}
		}
	}
	if msg.done != (msg.stage == remoteexecution.ExecutionStage_COMPLETED) && s.stageViolation == "" {
		s.stageViolation = fmt.Sprintf("done=%v but stage=%s", msg.done, msg.stage)
	}
	s.retriesSeenBefore = m.retries
	m.noteWaiter(s, true)
}

func (m *monitors) onStreamTaskKnown(s *stream) {
	ti := m.tasks[s.task]
	if s.kind != "exec" {
		return
	}
	// C03: "a new request arriving after completion starts a fresh execution".
	for _, id := range s.completedAtStart {
		if id == s.task {
			m.fail("C03", "attached-to-completed", "Execute %s started after task %d had completed, yet it was attached to that task", s.id, id)
		}
	}
	// C03: "Requests with do_not_cache set are never merged".
	if s.action.spec.doNotCache {
		for _, a := range m.w.actors {
			for _, o := range a.streams {
				if o != s && o.kind == "exec" && o.task == s.task {
					m.fail("C03", "do-not-cache-merged", "Execute %s and %s of the do_not_cache action %s share task %d", o.id, s.id, s.action.spec.name, s.task)
				}
			}
		}
	}
	_ = ti
}

func (m *monitors) checkStream(s *stream) {
	if s.stageViolation != "" {
		m.fail("C02", "stage-order", "stream %s: %s", s.id, s.stageViolation)
	}
	if s.sendAfter {
		m.fail("C02", "send-after-done", "stream %s: a message was sent after the done message", s.id)
	}
	if s.nameChanged {
		m.fail("C02", "name-changed", "stream %s: operation name changed within one stream", s.id)
	}
	d := s.doneMsg()
	if d == nil {
		return
	}
	// C03: "a client leaving does not disturb the others, and the task is
	// cancelled only when its last operation is abandoned": a stream is a
	// waiting client, so it can never be told that nobody is waiting. This
	// is judged on the message alone: a task that is cancelled for lack of
	// clients usually loses its last operation in the same critical section
	// and is then never visible in a dump as COMPLETED.
	if isNoWaitersCancellation(d.resp) {
		msg := status.FromProto(d.resp.Status).Message()
		m.fail("C03", "cancelled-with-waiter", "stream %s was told %q while it was waiting", s.id, msg)
		// C06: "an operation nobody waits on is removed after the no-waiter
		// timeout (cancelling the task if it was the last)": this stream waits
		// on the operation, so that cause cannot hold for its task.
		m.fail("C06", "cancelled-with-waiter", "stream %s was told %q while it was waiting", s.id, msg)
		if s.task != 0 && m.tasks[s.task].completedSeen {
			m.fail("C02", "cancelled-with-waiter", "stream %s was told %q while it was waiting", s.id, msg)
		}
	}
	if s.task == 0 {
		return
	}
	ti := m.tasks[s.task]
	if !ti.completedSeen {
		m.fail("C02", "done-before-completion", "stream %s received a done message (%s) although task %d was never observed completed", s.id, respSummary(d.resp), s.task)
		return
	}
	// C03: "all attached clients receive the same final response".
	if !proto.Equal(d.resp, ti.finalResp) {
		m.fail("C03", "different-final-response", "stream %s received %s but task %d completed with %s", s.id, respSummary(d.resp), s.task, respSummary(ti.finalResp))
		m.fail("C02", "unfaithful-final-response", "stream %s received %s but task %d completed with %s", s.id, respSummary(d.resp), s.task, respSummary(ti.finalResp))
	}
	if ti.finalProblem != "" {
		fp := "unfaithful-final-response/" + ti.finalClass
		if ti.finalTag != "" {
			fp += "/" + ti.finalTag
		}
		m.fail("C02", fp, "stream %s: final response %s of task %d %s", s.id, respSummary(d.resp), s.task, ti.finalProblem)
	}
}

func isNoWaitersCancellation(r *remoteexecution.ExecuteResponse) bool {
	st := status.FromProto(r.GetStatus())
	return st.Code() == codes.Canceled && strings.Contains(st.Message(), "no longer has any waiting clients")
}

// liveStreamsOf lists the streams that are attached to one of the operations
// of task id and whose client is still there: the stream has received a
// message (so waitExecution has registered it as a waiter), has not been
// completed, the harness has not cancelled its context and none of its
// Sends failed (w.mu held). Only harness-owned facts are used, nothing of
// the scheduler's own bookkeeping.
func (m *monitors) liveStreamsOf(id int) []string {
	var r []string
	for _, a := range m.w.actors {
		for _, s := range a.streams {
			if s.name == "" || m.opTask[s.name] != id {
				continue
			}
			if len(s.msgs) == 0 || s.sendFailed || s.ctx.cancelled() {
				continue
			}
			// A stream that had been waiting (it received an earlier update)
			// and has just been handed this very cancellation (the thread
			// that ran the clean-up delivers it to itself in the same step)
			// was attached when it happened.
			if d := s.doneMsg(); d != nil && !(isNoWaitersCancellation(d.resp) && len(s.msgs) >= 2) || d == nil && s.returned {
				continue
			}
			r = append(r, s.id+"("+opShort(s.name)+")")
		}
	}
	return r
}

// checkCancelledWithLiveStream: C03 "a client leaving does not disturb the
// others, and the task is cancelled only when its last operation is
// abandoned". Evaluated at the first quiescent point at which the
// cancellation (or the disappearance of the uncompleted task) is visible,
// i.e. right after the critical section that did it: an operation some live
// stream is attached to is not abandoned, whatever waiter counts and
// clean-up timers say (w.mu held).
func (m *monitors) checkCancelledWithLiveStream(ti *taskInfo, what string) {
	if live := m.liveStreamsOf(ti.id); len(live) > 0 {
		m.fail("C03", "cancelled-with-live-stream", "task %d %s although stream(s) %v are attached to its operation(s) and their clients never left (context not cancelled, no Send failure)", ti.id, what, live)
		// C06: the no-waiter clean-up may only cancel a task all of whose
		// operations have been without a waiter for the full timeout.
		m.fail("C06", "cancelled-with-live-stream", "task %d %s although stream(s) %v are attached to its operation(s) and their clients never left (context not cancelled, no Send failure): the operation was not without waiters for the no-waiter timeout", ti.id, what, live)
	}
}

// onStreamEnd runs in the client thread right after Execute/WaitExecution
// returned. C02: "ends with exactly one message marked done, and nothing is
// sent after it".
func (m *monitors) onStreamEnd(s *stream, err error) {
	if m.w.x.Free() {
		return
	}
	w := m.w
	x := w.x
	w.mu.Lock()
	defer w.mu.Unlock()
	s.returned = true
	s.err = err
	d := s.doneMsg()
	code := status.Code(err)
	switch {
	case d != nil:
		if err != nil {
			m.fail("C02", "error-after-done", "stream %s: call returned %v after the done message", s.id, err)
		}
		if dm := s.msgs[len(s.msgs)-1]; !dm.done {
			m.fail("C02", "send-after-done", "stream %s: messages after the done message", s.id)
		}
	case s.sendFailed:
		if err != errInjectedSend {
			m.fail("C02", "send-error-swallowed", "stream %s: Send failed with the injected error but the call returned %v", s.id, err)
		}
	case s.ctx.cancelled():
		if err == nil {
			m.fail("C02", "nil-without-done", "stream %s: call returned nil without a done message (context cancelled)", s.id)
		} else if code != codes.Canceled {
			m.fail("C02", "wrong-cancel-error", "stream %s: cancelled call returned %v", s.id, err)
		}
	case len(s.msgs) == 0:
		// Rejected up front: not a stream.
		if err == nil {
			m.fail("C02", "nil-without-done", "stream %s: call returned nil without any message", s.id)
		} else if lw, ok := m.lastWaiter[s.waitFor]; s.kind == "wait" && code == codes.NotFound && ok {
			// C02: "Every Execute or WaitExecution stream that its client does
			// not cancel ends with exactly one message marked done" (re-attaching
			// by name is part of the quantifier); C06: "an operation nobody
			// waits on is removed AFTER the no-waiter timeout". NOT_FOUND is the
			// legitimate answer only once the operation has been without a
			// waiter for OperationWithNoWaitersTimeout. The scheduler time of
			// the look-up is at most the harness clock now (the call has just
			// returned; bq.now never exceeds the clock); the operation had a
			// waiter at scheduler time lw or later (noteWaiter). So if
			// clock < lw + timeout the removal cannot have been due.
			if end := w.clock.tick(); end < lw+w.cfg.NoWaiter {
				msg := fmt.Sprintf("stream %s: WaitExecution(%s) was rejected with NOT_FOUND at tick %d although that operation still had a waiting client at scheduler tick %d and the no-waiter timeout is %d ticks: the client re-attached inside the window, was never cancelled, and gets no done message", s.id, opShort(s.waitFor), end, lw, w.cfg.NoWaiter)
				m.fail("C02", "reattach-rejected-inside-window", "%s", msg)
				m.fail("C06", "early-operation-removal", "%s", msg)
			}
		}
	default:
		m.fail("C02", "ended-without-done", "stream %s: call returned %v after %d message(s) without a done message although it was neither cancelled nor did Send fail", s.id, err, len(s.msgs))
	}
	x.Outcome("%s:%d%s/%s", s.id, len(s.msgs), map[bool]string{true: "D", false: ""}[d != nil], code)
	if d != nil {
		x.Outcome("%s", respSummary(d.resp))
	}
}

// onForcedCancel runs when teardown has to cancel a call that is still
// blocked after every timeout has elapsed (controller goroutine). C02:
// "every ... stream that its client does not cancel ends with exactly one
// message marked done"; C06: "every blocked call ... returns once its
// wake-up condition or timeout occurs".
func (m *monitors) onForcedCancel(a *actor) {
	if m.w.x.Free() {
		return
	}
	w := m.w
	snap := scheduler.VerifSnapshot(w.bq)
	w.mu.Lock()
	defer w.mu.Unlock()
	switch a.kind {
	case "client":
		if len(a.streams) == 0 {
			return
		}
		s := a.streams[len(a.streams)-1]
		s.forcedCancel = true
		if s.returned || len(s.msgs) == 0 || s.doneMsg() != nil || s.sendFailed {
			return
		}
		// The only legitimate reason to wait forever: the task is queued
		// in a predeclared queue that no worker serves any more.
		why := "its operation is unknown to the scheduler"
		for i := range snap.Operations {
			o := &snap.Operations[i]
			if o.Name != s.name || o.Task < 0 {
				continue
			}
			t := &snap.Tasks[o.Task]
			switch {
			case t.ExecuteResponse != nil:
				why = "its task is COMPLETED (" + respSummary(t.ExecuteResponse) + ")"
			case t.Stage == "QUEUED" && w.cfg.Predeclared != nil:
				why = ""
			default:
				why = "its task is " + t.Stage + " although all workers are gone and all timeouts have elapsed"
			}
		}
		if why != "" {
			msg := fmt.Sprintf("stream %s was never cancelled and Send never failed, yet it is still blocked without a done message after all timeouts elapsed (tick %d): %s", s.id, w.clock.tick(), why)
			m.fail("C02", "lost-wakeup/stream", "%s", msg)
			m.fail("C06", "lost-wakeup/stream", "%s", msg)
			m.fail("C07", "lost-wakeup/stream", "%s", msg)
		}
	case "operator":
		// TerminateWorkers may only wait for tasks that still execute.
		busy := false
		for _, pq := range snap.PlatformQueues {
			for _, scq := range pq.SizeClassQueues {
				for _, wk := range scq.Workers {
					if wk.CurrentTask >= 0 {
						busy = true
					}
				}
			}
		}
		if !busy {
			m.fail("C06", "lost-wakeup/terminate-workers", "operator %s is still blocked in TerminateWorkers although no worker holds a task", a.name)
		}
	}
}

// ---------------------------------------------------------------------------
// Workers (C01 behavioural, C03 start counting, C06 retry limit, C07)

func (m *monitors) onWorkerCallStart(a *actor) {
	if m.w.x.Free() {
		return
	}
	w := m.w
	wk := a.wk
	rec := wk.reqRec
	if rec == nil {
		return
	}
	snap := scheduler.VerifSnapshot(w.bq)
	w.mu.Lock()
	defer w.mu.Unlock()
	vw, _, _ := m.findWorker(snap, a.name, a.wspec.SizeClass)
	wk.reqPreTask = 0
	if vw == nil || vw.CurrentTask < 0 {
		return
	}
	t := &snap.Tasks[vw.CurrentTask]
	if t.ExecuteResponse != nil {
		return
	}
	id := m.taskID(t)
	if id == 0 {
		return
	}
	// The task the scheduler believes this worker runs while the report is
	// on its way.
	wk.reqPreTask = id
	// The report counts as "supplied by the worker that ran the task" for
	// the task it was produced for, and only while that task is assigned to
	// this worker (a re-sent or late report keeps its original binding).
	if !digestMatches(t.ActionDigest, rec.digest) || (rec.forTask != 0 && rec.forTask != id) {
		return
	}
	ti := m.tasks[id]
	ti.reports = append(ti.reports, report{worker: a.name, resp: proto.Clone(rec.resp).(*remoteexecution.ExecuteResponse)})
}

// lastContactBefore returns the scheduler time of this worker's last contact
// that a clean-up running at scheduler time c has to respect (see the
// comment in classifyCompletion), and whether the worker can be silent at
// all at time c (w.mu held).
func (a *actor) lastContactBefore(c int) (int, bool) {
	wk := a.wk
	if wk == nil || wk.returnedCalls == 0 || a.parkedSinceBefore(c) {
		return 0, false
	}
	l := wk.lastContact
	if wk.lastCallFirst == c && wk.returnedCalls >= 2 {
		// The last returned call may itself have run the clean-up.
		l = min(l, wk.prevContact)
	}
	return l, true
}

// parkedSinceBefore: the worker's current Synchronize call has reached its
// select (so it has entered the scheduler and cancelled its own removal)
// and obtained its first clock value before scheduler time c (w.mu held).
func (a *actor) parkedSinceBefore(c int) bool {
	wk := a.wk
	return wk != nil && a.inCall && a.doneCalls > 0 && wk.curFirst >= 0 && wk.curFirst < c
}

func (m *monitors) handoutSummary(ti *taskInfo) string {
	var parts []string
	for _, a := range m.w.actors {
		if n := ti.handouts[a.name]; n > 0 {
			parts = append(parts, fmt.Sprintf("%s:%d", a.name, n))
		}
	}
	return strings.Join(parts, " ")
}

func (m *monitors) contactSummary(names []string) string {
	var parts []string
	for _, a := range m.w.actors {
		if a.kind != "worker" || (names != nil && !containsString(names, a.name)) {
			continue
		}
		wk := a.wk
		parts = append(parts, fmt.Sprintf("%s: %d call(s) returned, last contact at tick %d, the one before at %d, in call=%v (entered at %d)", a.name, wk.returnedCalls, wk.lastContact, wk.prevContact, a.inCall, wk.curFirst))
	}
	return strings.Join(parts, "; ")
}

func (m *monitors) onWorkerCallEnd(a *actor, resp *remoteworker.SynchronizeResponse, err error) {
	w := m.w
	x := w.x
	wk := a.wk
	var snap *scheduler.VerifSnap
	exec := resp.GetDesiredState().GetExecuting()
	if w.x.Free() {
		// Race pass: only keep the worker's script state up to date.
		w.mu.Lock()
		defer w.mu.Unlock()
		wk.req, wk.reqReport, wk.reqRec = nil, nil, nil
		if exec != nil {
			if wk.assigned != nil && !proto.Equal(wk.assigned, exec.ActionDigest) {
				wk.prevDigest = wk.assigned
			}
			wk.assigned = exec.ActionDigest
		} else if resp.GetDesiredState().GetIdle() != nil {
			if wk.assigned != nil {
				wk.prevDigest = wk.assigned
			}
			wk.assigned = nil
		}
		return
	}
	if exec != nil || resp.GetDesiredState().GetIdle() != nil {
		// (Nothing can have run since the call dropped the scheduler lock: the
		// worker thread has not passed a scheduling point in between.)
		snap = scheduler.VerifSnapshot(w.bq)
	}
	w.mu.Lock()
	defer w.mu.Unlock()
	// Contact bookkeeping: a call that never obtained a clock value never
	// entered the scheduler (not possible with the requests of this harness).
	first, last := wk.curFirst, wk.curLast
	if first < 0 {
		first, last = wk.callStart, wk.callStart
	}
	wk.prevContact = wk.lastContact
	if wk.returnedCalls == 0 {
		wk.prevContact = last
	}
	wk.lastContact, wk.lastCallFirst = last, first
	wk.curFirst, wk.curLast = -1, -1
	wk.returnedCalls++
	wk.req = nil
	wk.reqReport = nil
	wk.reqRec = nil
	if err != nil {
		x.Outcome("%s:%s", a.name, status.Code(err))
		return
	}
	ds := resp.GetDesiredState()
	switch {
	case ds == nil:
		x.Outcome("%s:cont", a.name)
	case ds.GetIdle() != nil:
		// C01: "each accepted, not yet completed task is either waiting in the
		// queue ... or assigned to exactly one worker ... A Synchronize response
		// only ever tells a worker to execute the task currently assigned to that
		// worker": the response is how the worker learns what is assigned to it.
		// A response that sends the worker idle while the scheduler has a task
		// bound to it (e.g. one handed over while the worker's long poll was
		// timing out) leaves that task with a worker that does not run it; the
		// worker's first request for it is then counted as a re-request.
		if vw, _, _ := m.findWorker(snap, a.name, a.wspec.SizeClass); vw != nil && vw.CurrentTask >= 0 && snap.Tasks[vw.CurrentTask].ExecuteResponse == nil {
			t := &snap.Tasks[vw.CurrentTask]
			m.fail("C01", "idle/with-task", "worker %s was told to go idle although task %d (%s) is assigned to it: the task is bound to a worker that was never told to run it", a.name, m.taskID(t), t.ActionDigest)
		}
		if wk.assigned != nil {
			wk.prevDigest, wk.prevTask = wk.assigned, wk.assignedTask
		}
		wk.assigned, wk.assignedTask, wk.toldCount, wk.rerequests = nil, 0, 0, 0
		x.Outcome("%s:idle", a.name)
	case exec != nil:
		d := exec.ActionDigest
		// C01: "A Synchronize response only ever tells a worker to execute
		// the task currently assigned to that worker, and once a task has
		// completed no worker is ever told to start or restart it."
		vw, vscq, n := m.findWorker(snap, a.name, a.wspec.SizeClass)
		_ = n
		if vw == nil {
			m.fail("C01", "execute/unknown-worker", "worker %s was told to execute %s but is not in any worker table", a.name, digestShort(d))
			return
		}
		if vw.CurrentTask < 0 {
			m.fail("C01", "execute/no-task", "worker %s was told to execute %s but no task is assigned to it", a.name, digestShort(d))
			return
		}
		t := &snap.Tasks[vw.CurrentTask]
		if !digestMatches(t.ActionDigest, d) {
			m.fail("C01", "execute/wrong-task", "worker %s was told to execute %s but its assigned task has digest %s", a.name, digestShort(d), t.ActionDigest)
		}
		if t.ExecuteResponse != nil {
			m.fail("C01", "execute/completed-task", "worker %s was told to execute %s although that task has completed (%s)", a.name, digestShort(d), respSummary(t.ExecuteResponse))
		}
		if t.CurrentWorker != vw.Ref {
			m.fail("C01", "execute/not-owner", "worker %s was told to execute a task whose current worker is %q", a.name, t.CurrentWorker)
		}
		id := m.taskID(t)
		ti := m.tasks[id]
		if ti != nil && ti.completedSeen {
			m.fail("C01", "execute/completed-task", "worker %s was told to execute task %d, which had been observed completed earlier", a.name, id)
		}
		if exec.Action == nil {
			m.fail("C01", "execute/no-action", "worker %s was told to execute %s without an Action", a.name, digestShort(d))
			return
		}
		if id != 0 && id == wk.assignedTask {
			wk.toldCount++
		} else {
			if wk.assigned != nil {
				wk.prevDigest, wk.prevTask = wk.assigned, wk.assignedTask
			}
			wk.assigned, wk.assignedTask, wk.toldCount, wk.rerequests = d, id, 1, 0
			if ti != nil {
				ti.starts++
				ti.startWorkers = append(ti.startWorkers, a.name)
				// C03: "attaches to that task instead of creating a second
				// execution" - one start per task, one more per learner-
				// requested retry on the largest size class.
				if ti.starts > 1+ti.retriesGranted() {
					m.fail("C03", "second-execution", "task %d (digest %s) was started %d times on workers %v with %d size-class retries", id, digestShort(d), ti.starts, ti.startWorkers, ti.retriesGranted())
				}
			}
		}
		// C06: "a task a worker keeps re-requesting is failed with INTERNAL
		// after the configured number of retries": the same task reaches the
		// same worker at most WorkerTaskRetryCount+1 times (once, plus the
		// retries), no matter what the worker reports between its
		// re-requests (progress, a wrong digest, nothing).
		if ti != nil {
			ti.handouts[a.name]++
			if n := ti.handouts[a.name]; n > w.cfg.RetryCount+1 {
				m.fail("C06", "retry-limit-not-enforced", "task %d was handed to worker %s %d times (WorkerTaskRetryCount=%d): the worker keeps re-requesting it, yet it was not failed with INTERNAL", id, a.name, n, w.cfg.RetryCount)
			}
		}
		if wk.toldCount > w.cfg.RetryCount+1 {
			m.fail("C06", "retry-limit-not-enforced", "worker %s was told %d times in a row to execute task %d (WorkerTaskRetryCount=%d)", a.name, wk.toldCount, id, w.cfg.RetryCount)
		}
		if ti != nil {
			l := ti.lastLearner()
			// C07: "background learning runs are uncacheable".
			if ti.background && !exec.Action.DoNotCache {
				m.fail("C07", "background/cacheable", "background learning task %d was handed to worker %s without do_not_cache", id, a.name)
			}
			// C07: "a failure on a smaller size class is retried once on
			// the largest" (with the timeout that Failed returned).
			if l != nil && l.kind == "largest" && ti.retriesGranted() > 0 {
				prev := ti.firstLearner
				for prev.grantedRetry != l {
					prev = prev.grantedRetry
				}
				if got := exec.Action.Timeout.AsDuration(); got != prev.retryTimeout {
					m.fail("C07", "retry/timeout", "retried task %d runs with timeout %s, Failed() returned %s", id, got, prev.retryTimeout)
				}
				largest := vscq.SizeClass
				for _, pq := range snap.PlatformQueues {
					for _, scq := range pq.SizeClassQueues {
						if scq == vscq {
							largest = pq.SizeClasses[len(pq.SizeClasses)-1]
						}
					}
				}
				if vscq.SizeClass != largest {
					m.fail("C07", "retry/size-class", "retried task %d was handed to a worker of size class %d, largest is %d", id, vscq.SizeClass, largest)
				}
			}
		}
		x.Outcome("%s:exec%d", a.name, id)
	}
}

func (m *monitors) onOperatorCallEnd(a *actor, oc *operatorCall) {
	m.w.x.Outcome("%s:%s=%s", a.name, strings.Fields(oc.call)[0], status.Code(oc.err))
}

// onLearnerCall runs inside the fake learner (w.mu held, bq.lock held by
// the calling thread or by the controller during the final expiry).
func (m *monitors) onLearnerCall(l *fakeLearner, call string, timedOut bool) {
	if m.w.x.Free() {
		return
	}
	w := m.w
	x := w.x
	if call == "Abandoned" {
		return
	}
	// C07: Succeeded/Failed must stem from a worker-reported result.
	var a *actor
	if t := x.Current(); t != nil {
		a = w.byName[t.Name]
	}
	if a == nil || a.kind != "worker" || a.wk.reqReport == nil {
		m.fail("C07", "learner/"+call+"/no-report", "learner %v received %s although the calling thread is not a worker reporting a completed action", l, call)
		return
	}
	r := a.wk.reqReport
	if a.wk.assigned == nil || a.wk.assigned.Hash != l.digest {
		m.fail("C07", "learner/"+call+"/other-action", "learner %v of action %s received %s from worker %s reporting on action %s", l, l.digest[:6], call, a.name, digestShort(a.wk.assigned))
	}
	if ok := reportIsSuccess(r); ok != (call == "Succeeded") {
		m.fail("C07", "learner/"+call+"/wrong-outcome", "learner %v received %s but worker %s reported %s", l, call, a.name, respSummary(r))
	}
	if call == "Failed" {
		if want := status.FromProto(r.Status).Code() == codes.DeadlineExceeded; want != timedOut {
			m.fail("C07", "learner/Failed/timed-out-flag", "learner %v received Failed(timedOut=%v) but worker %s reported %s", l, timedOut, a.name, respSummary(r))
		}
	}
}

// ---------------------------------------------------------------------------
// C01: structural invariants, every quiescent point with no lock held

type heapLoc struct {
	inv string
	idx int
}

func invRefOf(i *scheduler.VerifInvocation) string {
	return i.SizeClassQueue + "/" + strings.Join(i.Path, "/")
}

func isQueuedInv(i *scheduler.VerifInvocation) bool {
	return len(i.QueuedOperations) > 0 || len(i.QueuedChildren) > 0
}

func (m *monitors) checkC01(snap *scheduler.VerifSnap) {
	fail := func(fp, format string, args ...any) { m.fail("C01", fp, format, args...) }

	opHeap := map[string][]heapLoc{}
	idleList := map[string][]heapLoc{} // worker ref -> positions in idle lists
	invs := map[string]*scheduler.VerifInvocation{}
	var walk func(i, parent *scheduler.VerifInvocation)
	walk = func(i, parent *scheduler.VerifInvocation) {
		ref := invRefOf(i)
		invs[ref] = i
		if !i.ParentOK || !i.SizeClassQueueOK || !i.StoredPathOK {
			fail("invocation/pointers", "invocation %s: parent/queue/key back-pointers are wrong (%v %v %v)", ref, i.ParentOK, i.SizeClassQueueOK, i.StoredPathOK)
		}
		for idx, e := range i.QueuedOperations {
			if e.StoredIndex != idx || !e.OwnerOK {
				fail("heap/queued-operations-index", "invocation %s: queued operation %s at heap position %d has queueIndex %d, owner ok=%v", ref, opShort(e.Name), idx, e.StoredIndex, e.OwnerOK)
			}
			opHeap[e.Name] = append(opHeap[e.Name], heapLoc{ref, idx})
		}
		childByKey := map[string]*scheduler.VerifInvocation{}
		for _, c := range i.Children {
			childByKey[c.Path[len(c.Path)-1]] = c
		}
		for idx, e := range i.QueuedChildren {
			c := childByKey[e.Name]
			if e.StoredIndex != idx || !e.OwnerOK || c == nil {
				fail("heap/queued-children-index", "invocation %s: queued child at heap position %d has index %d, is child=%v", ref, idx, e.StoredIndex, e.OwnerOK)
			} else if !isQueuedInv(c) {
				fail("heap/queued-children-stale", "invocation %s: child %v is in the queued-children heap but has nothing queued", ref, c.Path)
			}
		}
		for idx, e := range i.IdleSynchronizingWorkersChildren {
			c := childByKey[e.Name]
			if e.StoredIndex != idx || !e.OwnerOK || c == nil {
				fail("heap/idle-children-index", "invocation %s: idle-synchronizing child at heap position %d has index %d, is child=%v", ref, idx, e.StoredIndex, e.OwnerOK)
			} else if len(c.IdleSynchronizingWorkers) == 0 && len(c.IdleSynchronizingWorkersChildren) == 0 {
				fail("heap/idle-children-stale", "invocation %s: child %v is in the idle-synchronizing heap but has no idle synchronizing workers", ref, c.Path)
			}
		}
		for idx, e := range i.IdleSynchronizingWorkers {
			if e.StoredIndex != idx || !e.OwnerOK {
				fail("list/idle-workers-index", "invocation %s: idle synchronizing worker %s at position %d has listIndex %d, owner ok=%v", ref, e.Name, idx, e.StoredIndex, e.OwnerOK)
			}
			idleList[e.Name] = append(idleList[e.Name], heapLoc{ref, idx})
		}
		if parent != nil {
			// "waiting in the queue": a queued invocation must be
			// reachable from the root through the queued-children heaps.
			inHeap := i.QueuedChildrenIndex >= 0 && i.QueuedChildrenIndex < len(parent.QueuedChildren) && parent.QueuedChildren[i.QueuedChildrenIndex].Name == i.Path[len(i.Path)-1]
			if isQueuedInv(i) != inHeap {
				fail("heap/queued-children-membership", "invocation %s: has queued work=%v but is in its parent's queued-children heap=%v (index %d)", ref, isQueuedInv(i), inHeap, i.QueuedChildrenIndex)
			}
			hasIdle := len(i.IdleSynchronizingWorkers) > 0 || len(i.IdleSynchronizingWorkersChildren) > 0
			inIdle := i.IdleSynchronizingWorkersChildrenIndex >= 0 && i.IdleSynchronizingWorkersChildrenIndex < len(parent.IdleSynchronizingWorkersChildren) && parent.IdleSynchronizingWorkersChildren[i.IdleSynchronizingWorkersChildrenIndex].Name == i.Path[len(i.Path)-1]
			if hasIdle != inIdle {
				fail("heap/idle-children-membership", "invocation %s: has idle synchronizing workers=%v but is in its parent's heap=%v", ref, hasIdle, inIdle)
			}
		}
		for _, c := range i.Children {
			walk(c, i)
		}
	}
	workers := map[string]*scheduler.VerifWorker{}
	for pi, pq := range snap.PlatformQueues {
		if pq.TrieIndex != pi {
			fail("platform-queue/trie-index", "platform queue %s sits at index %d but the trie says %d", pq.Name, pi, pq.TrieIndex)
		}
		for _, scq := range pq.SizeClassQueues {
			if !scq.InMap {
				fail("size-class-queue/not-in-map", "size class queue %s is not registered in the size class queue map", scq.Name)
			}
			for i := range scq.Workers {
				workers[scq.Workers[i].Ref] = &scq.Workers[i]
			}
			walk(scq.Root, nil)
		}
	}
	if len(snap.OrphanSizeClassQueues) > 0 {
		fail("size-class-queue/orphan", "size class queues %v are in the map but not reachable from any platform queue", snap.OrphanSizeClassQueues)
	}

	// Tasks: "either waiting in the queue of exactly one platform/size-
	// class or assigned to exactly one worker".
	type wtask struct{ worker, inv string }
	expectExec := map[string]map[string]int{} // invocation ref -> worker ref -> count
	holders := map[int][]string{}
	for ref, wk := range workers {
		if wk.CurrentTask >= 0 {
			holders[wk.CurrentTask] = append(holders[wk.CurrentTask], ref)
		}
	}
	for ti := range snap.Tasks {
		t := &snap.Tasks[ti]
		id := m.taskOf[t.Ref]
		h := holders[ti]
		sort.Strings(h)
		if len(h) > 1 {
			fail("task/two-workers", "task %d is the current task of workers %v", id, h)
		}
		for _, o := range t.Operations {
			if !o.InvocationOK || !o.TaskOK {
				fail("task/operation-pointers", "task %d: operation %s does not point back to its task/invocation (%v %v)", id, opShort(o.Operation), o.TaskOK, o.InvocationOK)
			}
		}
		if t.ExecuteResponse != nil {
			if len(h) > 0 || t.CurrentWorker != "" {
				fail("task/completed-but-assigned", "task %d has completed (%s) but is still assigned: task.currentWorker=%q, workers holding it=%v", id, respSummary(t.ExecuteResponse), t.CurrentWorker, h)
			}
			for _, o := range t.Operations {
				if len(opHeap[o.Operation]) > 0 {
					fail("task/completed-but-queued", "task %d has completed but operation %s is still in a queue", id, opShort(o.Operation))
				}
			}
			continue
		}
		if len(t.Operations) == 0 {
			continue
		}
		if t.CurrentWorker == "" {
			if len(h) > 0 {
				fail("task/worker-without-backlink", "task %d has no current worker but is the current task of %v", id, h)
			}
			scqs := map[string]bool{}
			for _, o := range t.Operations {
				locs := opHeap[o.Operation]
				if len(locs) != 1 || locs[0].inv != o.Invocation {
					fail("task/queued-not-in-one-queue", "task %d is QUEUED but operation %s is in %d queue position(s) %v (its invocation: %s)", id, opShort(o.Operation), len(locs), locs, o.Invocation)
				}
				scqs[strings.SplitN(o.Invocation, "/", 2)[0]] = true
			}
			if len(scqs) > 1 {
				fail("task/queued-in-two-size-classes", "task %d is queued in %d size class queues", id, len(scqs))
			}
		} else {
			wk := workers[t.CurrentWorker]
			if wk == nil || !t.CurrentWorkerPointsBack || len(h) != 1 || h[0] != t.CurrentWorker {
				fail("task/assignment-not-mutual", "task %d says it runs on %q; workers that hold it: %v; points back=%v", id, t.CurrentWorker, h, t.CurrentWorkerPointsBack)
			}
			for _, o := range t.Operations {
				if len(opHeap[o.Operation]) > 0 {
					fail("task/executing-but-queued", "task %d is assigned to %s but operation %s is still queued at %v", id, t.CurrentWorker, opShort(o.Operation), opHeap[o.Operation])
				}
				// executingWorkers bookkeeping, up to the root.
				i := invs[o.Invocation]
				if i == nil {
					fail("task/operation-detached", "task %d: operation %s belongs to invocation %s, which is not in any tree", id, opShort(o.Operation), o.Invocation)
					continue
				}
				for depth := len(i.Path); depth >= 0; depth-- {
					ref := i.SizeClassQueue + "/" + strings.Join(i.Path[:depth], "/")
					if expectExec[ref] == nil {
						expectExec[ref] = map[string]int{}
					}
					expectExec[ref][t.CurrentWorker]++
				}
			}
		}
	}
	// Operations in heaps belong to live, unassigned tasks.
	for _, o := range snap.Operations {
		if locs := opHeap[o.Name]; len(locs) > 0 {
			if o.Task < 0 {
				fail("heap/operation-without-task", "queued operation %s has no task", opShort(o.Name))
				continue
			}
			t := &snap.Tasks[o.Task]
			found := false
			for _, to := range t.Operations {
				if to.Operation == o.Name {
					found = true
				}
			}
			if !found {
				fail("heap/operation-not-in-task", "operation %s is queued at %v but is not one of the operations of its task", opShort(o.Name), locs)
			}
		}
		if o.InNameMap && o.Task >= 0 {
			t := &snap.Tasks[o.Task]
			found := false
			for _, to := range t.Operations {
				if to.Operation == o.Name {
					found = true
				}
			}
			if !found {
				fail("operation/not-in-task", "operation %s is registered by name but is not one of the operations of its task", opShort(o.Name))
			}
		}
	}
	// Workers: "every worker is assigned at most one task" plus the
	// idle-synchronizing list back-pointers.
	for ref, wk := range workers {
		if wk.CurrentTask >= 0 && snap.Tasks[wk.CurrentTask].CurrentWorker != ref {
			fail("worker/assignment-not-mutual", "worker %s holds task %d, whose current worker is %q", ref, m.taskOf[snap.Tasks[wk.CurrentTask].Ref], snap.Tasks[wk.CurrentTask].CurrentWorker)
		}
		locs := idleList[ref]
		if wk.HasWakeup != (len(locs) == 1) || len(locs) > 1 {
			fail("worker/idle-list-membership", "worker %s: blocked in Synchronize=%v but appears %d time(s) in idle-synchronizing lists", ref, wk.HasWakeup, len(locs))
		}
		if len(locs) == 1 && (locs[0].inv != wk.LastInvocation || locs[0].idx != wk.ListIndex) {
			fail("worker/idle-list-position", "worker %s is listed at %v but says lastInvocation=%s listIndex=%d", ref, locs[0], wk.LastInvocation, wk.ListIndex)
		}
		if wk.HasWakeup && wk.CurrentTask >= 0 {
			fail("worker/idle-but-assigned", "worker %s is queued as idle although task %d is assigned to it", ref, m.taskOf[snap.Tasks[wk.CurrentTask].Ref])
		}
		if wk.HasLastInvocation && wk.LastInvocation == "<detached>" {
			fail("worker/last-invocation-detached", "worker %s: lastInvocation is not part of any invocation tree", ref)
		}
	}
	// "every worker is assigned at most one task" / "tells a worker to execute
	// the task currently assigned to that worker": the scheduler must know the
	// worker it is talking to. A worker thread that is inside Synchronize and
	// has reached the select of its long poll has been registered by that very
	// call and has cancelled its own removal and that of its queue; until the
	// call returns it is in exactly one worker table (the one of its size
	// class queue, which therefore exists).
	m.w.mu.Lock()
	for _, a := range m.w.actors {
		if a.kind != "worker" || !a.inCall || a.doneCalls == 0 {
			continue
		}
		vw, _, n := m.findWorker(snap, a.name, a.wspec.SizeClass)
		if vw == nil {
			fail("worker/synchronizing-but-unknown", "worker %s is parked inside Synchronize (long poll) but is not in the worker table of any size class queue: its queue was removed under it, a task handed to it has no worker the scheduler knows", a.name)
		} else if n > 1 {
			fail("worker/in-two-tables", "worker %s is parked inside Synchronize and appears in %d worker tables", a.name, n)
		}
	}
	m.w.mu.Unlock()
	for ref := range idleList {
		if workers[ref] == nil {
			fail("list/idle-worker-unknown", "idle-synchronizing list contains %q, which is not in any worker table", ref)
		}
	}
	// executingWorkers multisets.
	for ref, i := range invs {
		got := map[string]int{}
		for _, e := range i.ExecutingWorkers {
			got[e.Worker] += e.Count
		}
		want := expectExec[ref]
		keys := map[string]bool{}
		for k := range got {
			keys[k] = true
		}
		for k := range want {
			keys[k] = true
		}
		for k := range keys {
			if got[k] != want[k] {
				fail("invocation/executing-workers", "invocation %s: executingWorkers[%s]=%d, but %d operation(s) of it execute on that worker", ref, k, got[k], want[k])
			}
		}
	}
	// Deduplication map: subset of live cacheable tasks, injective.
	seen := map[int]bool{}
	for _, d := range snap.Deduplication {
		t := &snap.Tasks[d.Task]
		if t.ExecuteResponse != nil || t.DoNotCache || t.ActionDigest != d.Digest || seen[d.Task] {
			fail("dedup/bad-entry", "in-flight deduplication entry %s refers to task %d (digest %s, completed=%v, do_not_cache=%v, duplicate=%v)", d.Digest, m.taskOf[t.Ref], t.ActionDigest, t.ExecuteResponse != nil, t.DoNotCache, seen[d.Task])
		}
		seen[d.Task] = true
	}
	for idx, c := range snap.Cleanup {
		if !c.KeyOK {
			fail("cleanup/key", "cleanup heap entry %d does not match its key", idx)
		}
	}
}

// ---------------------------------------------------------------------------
// C03: structural part

func (m *monitors) checkC03(snap *scheduler.VerifSnap) {
	live := map[string][]int{}
	for i := range snap.Tasks {
		t := &snap.Tasks[i]
		named := false
		for _, o := range snap.Operations {
			if o.Task == i && o.InNameMap {
				named = true
			}
		}
		if !named {
			continue
		}
		id := m.taskOf[t.Ref]
		if t.ExecuteResponse != nil {
			// "the task is cancelled only when its last operation is abandoned"
			if st := status.FromProto(t.ExecuteResponse.Status); st.Code() == codes.Canceled && strings.Contains(st.Message(), "no longer has any waiting clients") {
				m.fail("C03", "cancelled-with-operations", "task %d was cancelled for lack of waiting clients although %d operation(s) still refer to it", id, len(t.Operations))
			}
			continue
		}
		if t.HasAction && !t.DoNotCache {
			live[t.ActionDigest] = append(live[t.ActionDigest], id)
			// "any further Execute request for the same action digest
			// attaches to that task": it must be findable.
			if !t.InDeduplicationMap && os.Getenv("SCHED_MUTE_MAPCHECK") == "" {
				m.fail("C03", "live-task-not-in-map/"+m.dedupContext(id, t.ActionDigest), "cacheable task %d (%s) is %s but not in the in-flight deduplication map: the next Execute of this action would start a second execution", id, t.ActionDigest, t.Stage)
			}
		}
	}
	for d, ids := range live {
		if len(ids) > 1 {
			sort.Ints(ids)
			m.fail("C03", "two-live-tasks/"+m.dedupContext(ids[len(ids)-1], d), "tasks %v for the same cacheable action %s are in flight at the same time", ids, d)
		}
	}
}

// dedupContext names the history that distinguishes the ways in which the
// in-flight deduplication map can lose a live task (part of the
// fingerprint): the task was retried on the largest size class, a
// background learning run for the same action digest exists or existed, or
// neither.
func (m *monitors) dedupContext(id int, digest string) string {
	if ti := m.tasks[id]; ti != nil && ti.retriesGranted() > 0 {
		return "retried"
	}
	for _, o := range m.tasks {
		if o.background && o.digestHash == digest {
			return "background-run-of-same-action"
		}
	}
	return "plain"
}

// ---------------------------------------------------------------------------
// C06: timeouts fire when due; leak check at the end

func (m *monitors) checkC06(snap *scheduler.VerifSnap) {
	// "after the worker timeout / no-waiter timeout / ...": the lazy
	// garbage collector must have run everything that was due at the time
	// the scheduler last looked at the clock.
	for _, c := range snap.Cleanup {
		if c.Timestamp <= snap.Now {
			m.fail("C06", "overdue-cleanup", "a cleanup due at tick %d is still pending although the scheduler's clock is at tick %d", nsTick(c.Timestamp), nsTick(snap.Now))
		}
	}
	// A worker that is not inside Synchronize must be armed for removal,
	// and one that is must not be.
	for _, pq := range snap.PlatformQueues {
		for _, scq := range pq.SizeClassQueues {
			if scq.MayBeRemoved && len(scq.Workers) == 0 && !scq.CleanupActive {
				m.fail("C06", "queue-not-armed", "dynamic size class queue %s has no workers but no removal is scheduled", scq.Name)
			}
			for _, wk := range scq.Workers {
				name := ""
				for _, a := range m.w.actors {
					if a.kind == "worker" && workerKeyJSON(a.name) == wk.Key && a.wspec.SizeClass == scq.SizeClass {
						name = a.name
						if !a.inCall && !wk.CleanupActive {
							m.fail("C06", "worker-not-armed", "worker %s is not synchronizing but no removal is scheduled for it", a.name)
						}
					}
				}
				_ = name
			}
		}
	}
	// "Every blocked call (Execute, WaitExecution, ...) returns once its
	// wake-up condition or timeout occurs": the wake-up condition of a
	// waiting stream is the completion of its task. At a quiescent point
	// with the scheduler lock free everything that can run has run; a stream
	// whose task is COMPLETED must therefore have been woken (it has then
	// stopped its update timer and is on its way to the lock or gone). A
	// client that still sleeps in waitExecution's select with its update
	// timer armed has lost the wake-up; that the timer will rescue it one
	// update interval later does not count (whichever comes first).
	m.w.mu.Lock()
	for _, a := range m.w.actors {
		if a.kind != "client" || len(a.streams) == 0 || !a.deliverable() {
			continue
		}
		s := a.streams[len(a.streams)-1]
		if s.returned || s.name == "" || s.doneMsg() != nil {
			continue
		}
		completed, known := "", false
		for _, o := range snap.Operations {
			if o.Name == s.name && o.Task >= 0 {
				known = true
				if r := snap.Tasks[o.Task].ExecuteResponse; r != nil {
					completed = respSummary(r)
				}
			}
		}
		if !known {
			if ti := m.tasks[m.opTask[s.name]]; ti != nil && ti.completedSeen {
				completed = respSummary(ti.finalResp)
			}
		}
		if completed != "" {
			m.fail("C06", "lost-wakeup/completed-while-blocked", "stream %s sleeps in the select of waitExecution (update timer armed for tick %d, context not cancelled) although its task has COMPLETED (%s): the completion did not wake it up", s.id, a.timer.deadline, completed)
		}
	}
	// "Every blocked call (..., TerminateWorkers) returns once its wake-up
	// condition ... occurs": TerminateWorkers "blocks until any operations
	// running on the workers complete", i.e. its wake-up condition is that
	// none of the matching workers is executing a task any more (matching
	// workers are marked terminating and receive no further tasks). At a
	// quiescent point with the scheduler lock free everything that can run
	// has run: an operator thread that still sleeps in the select of
	// TerminateWorkers (select reached, context not cancelled) while no
	// matching worker holds a task has lost its wake-up. That some later,
	// unrelated event (the task finishing on ANOTHER worker after a size-class
	// retry) closes the channel it sleeps on does not count.
	for _, a := range m.w.actors {
		if a.kind != "operator" || !a.inCall || a.doneCalls == 0 || a.ctx == nil || a.ctx.cancelled() || len(a.ops) == 0 {
			continue
		}
		oc := a.ops[len(a.ops)-1]
		f := strings.Fields(oc.call)
		if f[0] != "term" || !oc.started || oc.ended {
			continue
		}
		key := workerKeyJSON(f[1])
		busy := false
		for _, pq := range snap.PlatformQueues {
			for _, scq := range pq.SizeClassQueues {
				for _, wk := range scq.Workers {
					if wk.Key == key && wk.CurrentTask >= 0 {
						busy = true
					}
				}
			}
		}
		if !busy {
			m.fail("C06", "lost-wakeup/terminate-workers/worker-idle", "operator %s sleeps in the select of TerminateWorkers(%s) (context not cancelled) although worker %s is not executing any task: the event that took the task off the worker did not wake the call up", a.name, f[1], f[1])
		}
	}
	// "Every blocked call (..., Synchronize, ...) returns once its wake-up
	// condition or timeout occurs": the wake-up condition of an idle
	// Synchronize is that there is work the worker may take. At a quiescent
	// point with the scheduler lock free everything that can run has run: a
	// worker thread that is still durably blocked in the select of its
	// Synchronize call (not cancelled, timer not fired) although no active
	// drain matches it, it is not terminating, it holds no task and its size
	// class queue has a queued operation has lost its wake-up (e.g. the drain
	// that held it back was removed without waking it). That the idle
	// synchronization timeout will rescue it later does not count.
	for _, a := range m.w.actors {
		if a.kind != "worker" || !a.inCall || a.doneCalls == 0 || a.ctx == nil || a.ctx.cancelled() || a.thread == nil {
			continue
		}
		if a.timer != nil && a.timer.isFired() {
			continue
		}
		if a.thread.State(m.w.x) != "native" {
			continue
		}
		vw, vscq, _ := m.findWorker(snap, a.name, a.wspec.SizeClass)
		if vw == nil || vscq == nil || vw.Drained || vw.Terminating || vw.CurrentTask >= 0 {
			continue
		}
		if len(vscq.Root.QueuedOperations)+len(vscq.Root.QueuedChildren) > 0 {
			m.fail("C06", "lost-wakeup/synchronize/undrained-with-queued-work", "worker %s sleeps in the select of Synchronize (context not cancelled, timer not fired) although it matches none of the active drains %v, is not terminating, holds no task, and its size class queue %s has queued operations: the event that made it eligible did not wake the call up", a.name, vscq.Drains, vscq.Name)
		}
	}
	m.w.mu.Unlock()
	for _, o := range snap.Operations {
		if o.InNameMap && o.Waiters == 0 && !o.MayExistWithoutWaiters && !o.CleanupActive {
			m.fail("C06", "operation-not-armed", "operation %s has no waiters but no removal is scheduled for it", opShort(o.Name))
		}
		// "only predeclared queues and their bounded background-learning
		// BACKLOG may remain": a background learning operation may exist
		// without waiters only while its task is queued or executing. Once the
		// task has completed it is an ordinary operation nobody waits on.
		if o.InNameMap && o.Waiters == 0 && o.Task >= 0 && snap.Tasks[o.Task].ExecuteResponse != nil && !o.CleanupActive {
			m.fail("C06", "operation-not-armed/completed", "operation %s belongs to a COMPLETED task and has no waiters, but no removal is scheduled for it (mayExistWithoutWaiters=%v): it will be retained forever", opShort(o.Name), o.MayExistWithoutWaiters)
		}
	}
}

// ---------------------------------------------------------------------------
// C07(a): structural part

func (m *monitors) checkC07(snap *scheduler.VerifSnap) {
	bgKey := string(invocation.BackgroundLearningKeys[0])
	for _, pq := range snap.PlatformQueues {
		for _, scq := range pq.SizeClassQueues {
			for _, c := range scq.Root.Children {
				if c.Path[0] == bgKey {
					// "background learning runs are ... bounded in number"
					if n := len(c.QueuedOperations); n > pq.MaximumQueuedBackgroundLearningOperations {
						m.fail("C07", "background/backlog", "size class queue %s holds %d queued background learning operations, limit %d", scq.Name, n, pq.MaximumQueuedBackgroundLearningOperations)
					}
				}
			}
		}
	}
	for i := range snap.Tasks {
		t := &snap.Tasks[i]
		ti := m.tasks[m.taskOf[t.Ref]]
		if ti == nil {
			continue
		}
		if ti.background && t.HasAction && !t.DoNotCache {
			m.fail("C07", "background/cacheable", "background learning task %d does not have do_not_cache set", ti.id)
		}
		// Retry: "retried once on the largest" with what Failed returned.
		if l, ok := t.Learner.(*fakeLearner); ok && l != nil && t.ExecuteResponse == nil {
			for p := ti.firstLearner; p != nil; p = p.grantedRetry {
				if p.grantedRetry == l {
					if t.ExpectedDuration != p.retryExpected || (t.HasAction && t.ActionTimeout != p.retryTimeout) {
						m.fail("C07", "retry/parameters", "retried task %d has expected duration %s / timeout %s, Failed() returned %s / %s", ti.id, t.ExpectedDuration, t.ActionTimeout, p.retryExpected, p.retryTimeout)
					}
					largest := ""
					for _, pq := range snap.PlatformQueues {
						for _, scq := range pq.SizeClassQueues {
							for _, o := range t.Operations {
								if strings.HasPrefix(o.Invocation, scq.Name+"/") {
									largest = pq.SizeClassQueues[len(pq.SizeClassQueues)-1].Name
									if scq.Name != largest {
										m.fail("C07", "retry/size-class", "retried task %d sits in size class queue %s, largest is %s", ti.id, scq.Name, largest)
									}
								}
							}
						}
					}
				}
			}
		}
	}
}

// ---------------------------------------------------------------------------
// Finish: expire everything, then nothing may be left (C06); every selector
// and learner has had its one call (C07)

// poke makes the scheduler look at the clock (runs the lazy garbage
// collector). A panic inside the scheduler is a violation.
func (m *monitors) poke() (ok bool) {
	defer func() {
		if r := recover(); r != nil {
			m.failAll("panic/final-expiry/"+firstLine(fmt.Sprint(r)), "panic while expiring everything at the end of the run: %v\n%s", r, debug.Stack())
			ok = false
		}
	}()
	if _, err := m.w.bq.ListPlatformQueues(context.Background(), &emptypb.Empty{}); err != nil {
		panic(err)
	}
	return true
}

func firstLine(s string) string {
	if i := strings.IndexByte(s, '\n'); i >= 0 {
		s = s[:i]
	}
	if len(s) > 80 {
		s = s[:80]
	}
	return s
}

func (m *monitors) finish() {
	w := m.w
	x := w.x
	m.finished = true
	c := w.cfg
	step := c.WorkerTimeout + c.QueueTimeout + c.NoWaiter + c.Update + c.IdleSync + 1
	var snap *scheduler.VerifSnap
	for round := 0; round < 3; round++ {
		w.clock.mu.Lock()
		w.clock.now += step
		w.clock.mu.Unlock()
		if !m.poke() {
			return
		}
		snap = scheduler.VerifSnapshot(w.bq)
		m.locks = 0
		m.snap = snap
		w.mu.Lock()
		m.absorb(snap)
		w.mu.Unlock()
	}
	// C06: "after all clients and workers are gone and all timeouts have
	// passed the scheduler retains nothing created on their behalf: no
	// operations, tasks, invocations, workers or dynamic queues (only
	// predeclared queues and their bounded background-learning backlog may
	// remain)".
	bgOps := 0
	bgInvocations := 0
	bgKey := string(invocation.BackgroundLearningKeys[0])
	for _, pq := range snap.PlatformQueues {
		for _, scq := range pq.SizeClassQueues {
			for _, ch := range scq.Root.Children {
				if ch.Path[0] == bgKey && !scq.MayBeRemoved {
					bgInvocations++
					bgOps += len(ch.QueuedOperations)
					if len(ch.QueuedOperations) > pq.MaximumQueuedBackgroundLearningOperations {
						m.fail("C06", "leak/background-backlog", "queue %s retains %d background operations, limit %d", scq.Name, len(ch.QueuedOperations), pq.MaximumQueuedBackgroundLearningOperations)
					}
				}
			}
		}
	}
	cnt := snap.Counts
	leak := func(what string, got, allowed int) {
		if got > allowed {
			m.fail("C06", "leak/"+what, "after all participants are gone and all timeouts have passed, the scheduler still retains %d %s (allowed: %d); counts=%v", got, what, allowed, cnt)
		}
	}
	leak("operations", cnt["operations"], bgOps)
	leak("tasks", cnt["tasks"], bgOps)
	leak("deduplication", cnt["deduplication"], 0)
	leak("invocations", cnt["invocations_non_root"], bgInvocations)
	leak("workers", cnt["workers"], 0)
	leak("dynamic-queues", cnt["dynamic_size_class_queues"], 0)
	if bgOps == 0 {
		leak("cleanups", cnt["cleanups"], 0)
	}
	if x.Failed() {
		return
	}
	if mc.Active("C01") {
		m.checkC01(snap)
	}
	// C07: "the size-class analyzer's selector receives exactly one of
	// Select or Abandoned, and every learner it yields receives exactly one
	// terminal call".
	w.mu.Lock()
	defer w.mu.Unlock()
	for _, s := range w.analyzer.selectors {
		if s.selects+s.abandoned != 1 {
			m.fail("C07", "selector/not-exactly-one", "selector %d received %d Select and %d Abandoned calls", s.id, s.selects, s.abandoned)
		}
	}
	pending := map[*fakeLearner]bool{}
	for i := range snap.Tasks {
		if l, ok := snap.Tasks[i].Learner.(*fakeLearner); ok && l != nil && snap.Tasks[i].ExecuteResponse == nil {
			pending[l] = true
		}
	}
	for _, l := range w.analyzer.learners {
		switch n := l.terminals(); {
		case n == 1:
			if l.task == 0 && (l.succeeded > 0 || l.failed > 0) {
				m.fail("C07", "learner/unattached-outcome", "learner %v never belonged to a task but received succeeded=%d failed=%d", l, l.succeeded, l.failed)
			}
		case n == 0 && pending[l] && l.kind == "background":
			// still queued in a predeclared queue: allowed to remain
		default:
			m.fail("C07", "learner/not-exactly-one", "learner %v (task %d) received succeeded=%d failed=%d abandoned=%d terminal calls", l, l.task, l.succeeded, l.failed, l.abandonedN)
		}
	}
}

// ---------------------------------------------------------------------------
// State key

func (m *monitors) buildKey(snap *scheduler.VerifSnap) string {
	w := m.w
	b := &keyBuilder{alias: map[string]string{}, buf: make([]byte, 0, 4096)}
	b.s("now=").i(nsTick(snap.Now)).s(" clk=").i(w.clock.tick()).s(" uu=").i(w.uuids).s(" st=").i(w.stageSpawned).s(" la=").i(w.lastActivity).s(" L").i(m.locks).s("|")
	tid := func(idx int) int {
		if idx < 0 {
			return -1
		}
		return m.taskOf[snap.Tasks[idx].Ref]
	}
	var inv func(i *scheduler.VerifInvocation)
	inv = func(i *scheduler.VerifInvocation) {
		b.s("I[")
		if n := len(i.Path); n > 0 {
			b.s(b.short(i.Path[n-1])).s(" ")
		}
		b.s("q=")
		for _, e := range i.QueuedOperations {
			b.s(opShort(e.Name)).s(",")
		}
		b.s(" qc=")
		for _, n := range sortedCopy(i.QueuedChildren) {
			b.s(b.short(n)).s(",")
		}
		b.s(" ic=")
		for _, n := range sortedCopy(i.IdleSynchronizingWorkersChildren) {
			b.s(b.short(n)).s(",")
		}
		b.s(" iw=")
		for _, e := range i.IdleSynchronizingWorkers {
			b.s(b.short(e.Name)).s(",")
		}
		b.s(" p=").i(int(i.FirstQueuedOperationPriority)).s(" ew=")
		for _, e := range i.ExecutingWorkers {
			b.s(b.short(e.Worker)).s(":").i(e.Count).s(",")
		}
		b.s(" ls=").i(nsTick(i.LastOperationStarted)).s(" lc=").i(nsTick(i.LastOperationCompletion)).s(" iwc=").i(int(i.IdleWorkersCount)).s(" ")
		for _, c := range i.Children {
			inv(c)
		}
		b.s("]")
	}
	for _, pq := range snap.PlatformQueues {
		b.s("PQ ").s(b.short(pq.Name))
		for _, sc := range pq.SizeClasses {
			b.s(" ").i(int(sc))
		}
		b.s("{")
		for _, scq := range pq.SizeClassQueues {
			b.s("SCQ ").i(int(scq.SizeClass)).s(" cl=").bl(scq.CleanupActive).s("@").i(nsTick(scq.CleanupTime)).s(" dr=")
			for _, d := range scq.Drains {
				b.s(b.short(d)).s(",")
			}
			for _, wk := range scq.Workers {
				b.s("W ").s(b.short(wk.Ref)).s(" t=").i(tid(wk.CurrentTask)).s(" term=").bl(wk.Terminating).s(" li=").s(b.short(wk.LastInvocation)).s(" wu=").bl(wk.HasWakeup).s(" cl=").bl(wk.CleanupActive).s("@").i(nsTick(wk.CleanupTime)).s(";")
			}
			inv(scq.Root)
		}
		b.s("}")
	}
	for i := range snap.Tasks {
		t := &snap.Tasks[i]
		b.s("T").i(tid(i)).s(" ").s(b.short(t.ActionDigest)).s(" ").s(t.Stage).s(" r=").s(respSummary(t.ExecuteResponse)).s(" w=").s(b.short(t.CurrentWorker)).s(" rc=").i(t.RetryCount).s(" L=")
		if l, ok := t.Learner.(*fakeLearner); ok && l != nil {
			b.i(l.id)
		}
		b.s(" dnc=").bl(t.DoNotCache).s(" to=").i(int(t.ActionTimeout / time.Second)).s(" ed=").i(int(t.ExpectedDuration / time.Second)).s(" qt=").i(nsTick(t.QueuedTimestamp)).s(" dd=").bl(t.InDeduplicationMap).s(" ops=")
		for _, o := range t.Operations {
			b.s(opShort(o.Operation)).s("@").s(b.short(o.Invocation)).s(",")
		}
		b.s(";")
	}
	for _, o := range snap.Operations {
		b.s("O ").s(opShort(o.Name)).s(" t=").i(tid(o.Task)).s(" p=").i(int(o.Priority)).s(" qi=").i(o.QueueIndex).s(" wt=").i(int(o.Waiters)).s(" mw=").bl(o.MayExistWithoutWaiters).s(" cl=").bl(o.CleanupActive).s("@").i(nsTick(o.CleanupTime)).s(" nm=").bl(o.InNameMap).s(";")
	}
	b.s("CQ")
	for _, c := range snap.Cleanup {
		b.s(" ").i(nsTick(c.Timestamp))
	}
	// Environment and harness memory.
	b.s("|ACT")
	for _, a := range w.actors {
		b.s(" ").s(a.name).s(":").bl(a.started).bl(a.done).bl(a.inCall).s(" dc=").bl(a.doneCalls > 0).s(" cl=").i(a.cancelsLeft)
		if a.ctx != nil && a.inCall {
			b.s(" cx=").bl(a.ctx.cancelled())
		}
		if a.timer != nil {
			b.s(" tm=").i(a.timer.deadline).bl(a.timer.isFired()).bl(a.timer.isStopped())
		}
		if a.sleepUntil >= 0 {
			b.s(" sl=").i(a.sleepUntil)
		}
		if wk := a.wk; wk != nil {
			b.s(" wk=").i(wk.calls).s("/").s(digestShort(wk.assigned)).s("/").i(wk.assignedTask).s("/").i(wk.toldCount).s("/").i(wk.rerequests).s("/").i(wk.lastContact).s("/").i(wk.prevContact).s("/").i(wk.lastCallFirst).s("/").i(wk.returnedCalls).s("/").i(wk.reports)
			if wk.prevDigest != nil || wk.lastRec != nil {
				b.s("/pv=").s(digestShort(wk.prevDigest)).s("/").i(wk.prevTask).s("/").s(wk.lastKind).s("/").s(wk.lastRec.marker())
				if wk.lastRec != nil {
					b.s("/").i(wk.lastRec.forTask)
				}
			}
			if wk.req != nil {
				b.s("/").s(wk.reqKind).s("/").i(wk.reqPreTask).s("@").i(wk.callStart).s("/").i(wk.curFirst).s("/").i(wk.curLast)
				if wk.reqRec != nil {
					b.s("/").s(wk.reqRec.marker()).s("/").i(wk.reqRec.forTask)
				}
			}
		}
		for _, oc := range a.ops {
			b.s(" oc=").bl(oc.started).bl(oc.ended).s(opShort(oc.target))
		}
		for _, s := range a.streams {
			b.s(" S(").s(s.id).s(" ").s(opShort(s.name)).s(" n=").i(min(len(s.msgs), 1)).s(" t=").i(s.task)
			if n := len(s.msgs); n > 0 {
				last := s.msgs[n-1]
				b.s(" ").i(int(last.stage)).bl(last.done).s(respSummary(last.resp))
			}
			b.s(" sf=").bl(s.sendFailed).s(" cc=").bl(s.cancelled).s(" rt=").bl(s.returned).s(status.Code(s.err).String()).s(" rs=").i(s.retriesSeenBefore).s(" sv=").bl(s.stageViolation != "").s(" ca=")
			for _, id := range s.completedAtStart {
				b.i(id).s(",")
			}
			b.s(")")
		}
	}
	b.s("|MON r=").i(m.retries)
	ids := make([]int, 0, len(m.tasks))
	for id := range m.tasks {
		ids = append(ids, id)
	}
	sort.Ints(ids)
	for _, id := range ids {
		ti := m.tasks[id]
		b.s(" M").i(id).s(" st=").i(ti.starts)
		for _, sw := range ti.startWorkers {
			b.s(sw).s(",")
		}
		b.s(" mr=").i(ti.maxRerequests).s(" ho=")
		for _, a := range w.actors {
			if n := ti.handouts[a.name]; n > 0 {
				b.s(a.name).s(":").i(n).s(",")
			}
		}
		b.s(" aw=")
		for _, sw := range ti.assignedWorkers {
			b.s(sw).s(",")
		}
		b.s(" cs=").bl(ti.completedSeen).s(" g=").bl(ti.gone).s(" fc=").s(ti.finalClass).s(" fp=").bl(ti.finalProblem != "").s(ti.finalTag).s(" fr=").s(respSummary(ti.finalResp)).s(" rp=")
		for _, r := range ti.reports {
			b.s(r.resp.Message).s(",")
		}
	}
	b.s(" LW")
	lwNames := make([]string, 0, len(m.lastWaiter))
	for n := range m.lastWaiter {
		lwNames = append(lwNames, n)
	}
	sort.Strings(lwNames)
	for _, n := range lwNames {
		b.s(" ").s(opShort(n)).s("@").i(m.lastWaiter[n])
	}
	b.s("|AN")
	for _, s := range w.analyzer.selectors {
		b.s(" s").i(s.id).s(":").i(s.selects).i(s.abandoned)
	}
	for _, l := range w.analyzer.learners {
		b.s(" l").i(l.id).s(":").s(l.kind).s(":").i(l.succeeded).i(l.failed).i(l.abandonedN).s(":").i(l.task)
		if l.grantedRetry != nil {
			b.s("r").i(l.grantedRetry.id)
		}
		if l.grantedBackground != nil {
			b.s("b").i(l.grantedBackground.id)
		}
	}
	return string(b.buf)
}
