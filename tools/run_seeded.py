#!/usr/bin/env python3
"""Runs the registered checks against the seeded property-breaking changes in /verif/seeded/<id>/.

Each change is evaluated through the build overlay (VERIF_PATCH), so /repo is not touched; this is
equivalent to `git -C /repo apply patch.diff; ./check <prop> quick; git -C /repo checkout -- .`.
Usage: tools/run_seeded.py [--tier quick|thorough] [id ...]   (default: all)
Writes seeded/RESULTS.json and seeded/RESULTS.md."""
import json, os, subprocess, sys, tempfile, time, shutil, re

VERIF = os.path.dirname(os.path.dirname(os.path.abspath(__file__)))
args = sys.argv[1:]
tier = "quick"
if "--tier" in args:
    i = args.index("--tier")
    tier = args[i + 1]
    del args[i:i + 2]
ids = args or sorted(d for d in os.listdir(os.path.join(VERIF, "seeded")) if os.path.isdir(os.path.join(VERIF, "seeded", d)))
respath = os.environ.get("SEEDED_RESULTS") or os.path.join(VERIF, "seeded", "RESULTS.json")
results = json.load(open(respath)) if os.path.exists(respath) else {}
for sid in ids:
    d = os.path.join(VERIF, "seeded", sid)
    meta = json.load(open(os.path.join(d, "meta.json")))
    prop = meta["property"]
    tmp = tempfile.mkdtemp(prefix="seeded-")
    env = dict(os.environ, VERIF_PATCH=os.path.join(d, "patch.diff"), VERIF_EVIDENCE_DIR=tmp, VERIF_REPLAY_DIR=tmp)
    t0 = time.time()
    p = subprocess.run([os.path.join(VERIF, "check"), prop, tier], cwd=VERIF, env=env, capture_output=True, text=True)
    out = p.stdout + p.stderr
    fps = re.findall(r"violation: scenario=(\S+) fingerprint=(\S+)", out)
    verdict = {0: "MISSED", 1: "DETECTED"}.get(p.returncode, "ERROR")
    results[sid] = {"property": prop, "tier": tier, "verdict": verdict, "exit": p.returncode,
                    "violations": ["%s: %s" % f for f in fps][:5], "wall_s": round(time.time() - t0, 1),
                    "tail": out[-600:] if verdict != "DETECTED" else ""}
    print("%-8s %-4s %-9s %5.0fs %s" % (sid, prop, verdict, time.time() - t0, "; ".join(results[sid]["violations"])[:160]))
    shutil.rmtree(tmp, ignore_errors=True)
    json.dump(results, open(respath, "w"), indent=1, sort_keys=True)
with open(os.path.splitext(respath)[0] + ".md", "w") as f:
    f.write("| seeded change | property | tier | verdict | caught by (scenario: fingerprint) |\n|---|---|---|---|---|\n")
    for sid in sorted(results):
        r = results[sid]
        f.write("| %s | %s | %s | %s | %s |\n" % (sid, r["property"], r["tier"], r["verdict"], "<br>".join(r["violations"][:2])))
