package suspclock

import (
	"bytes"
	"context"
	"crypto/sha256"
	"encoding/hex"
	"errors"
	"fmt"
	"io"

	"verif/mc"

	remoteexecution "github.com/bazelbuild/remote-apis/build/bazel/remote/execution/v2"
	re_blobstore "github.com/buildbarn/bb-remote-execution/pkg/blobstore"
	"github.com/buildbarn/bb-remote-execution/pkg/cas"
	"github.com/buildbarn/bb-storage/pkg/blobstore"
	"github.com/buildbarn/bb-storage/pkg/blobstore/buffer"
	"github.com/buildbarn/bb-storage/pkg/blobstore/slicing"
	"github.com/buildbarn/bb-storage/pkg/digest"
)

// Engine B: every method of SuspendingBlobAccess / SuspendingDirectoryFetcher
// brackets the base call with exactly one Suspend/Resume pair, on success and
// on every error path (for Get/GetFromComposite: Resume when the returned
// buffer has been consumed, discarded or has failed).

var (
	blobData   = []byte("hello")
	blobDigest = func() digest.Digest {
		h := sha256.Sum256(blobData)
		return digest.MustNewDigest("inst", remoteexecution.DigestFunction_SHA256, hex.EncodeToString(h[:]), int64(len(blobData)))
	}()
	errBase = errors.New("base failed")
)

// countingSuspendable is the reference: it records the nesting depth.
type countingSuspendable struct {
	suspends, resumes int
	negative          bool
}

func (s *countingSuspendable) Suspend() { s.suspends++ }
func (s *countingSuspendable) Resume() {
	s.resumes++
	if s.resumes > s.suspends {
		s.negative = true
	}
}
func (s *countingSuspendable) depth() int { return s.suspends - s.resumes }

// probeReader is the lazily read stream behind a buffer returned by the base:
// it records the suspension depth at every Read, i.e. while the
// CONSUMER drains the buffer - that is when a stream-backed read
// really waits for storage, long after base.Get() has returned.
type probeReader struct {
	st   *wrapState
	r    io.Reader
	fail bool
}

func (p *probeReader) note() {
	d := p.st.s.depth()
	if p.st.depthInStream == -1 || d < p.st.depthInStream {
		p.st.depthInStream = d
	}
}

func (p *probeReader) Read(b []byte) (int, error) {
	p.note()
	if p.fail {
		return 0, errBase
	}
	return p.r.Read(b)
}

func (p *probeReader) Close() error {
	// (Closing the stream is not a wait for storage: when a buffer is
	// discarded the clock may be resumed before or after it.)
	p.st.streamClosed = true
	return nil
}

// wrapState: implementation + reference.
type wrapState struct {
	s     *countingSuspendable
	ba    blobstore.BlobAccess
	df    cas.DirectoryFetcher
	mode  string // how the base answers the next call
	calls int    // base calls observed
	// depthInBase: suspension depth observed inside the last base call.
	depthInBase int
	ops         int
	// depthInStream: the LOWEST suspension depth observed by the stream
	// behind the returned buffer at any of its Read calls (-1: none).
	depthInStream int
	streamClosed  bool
}

type baseBlobAccess struct{ st *wrapState }

func (b baseBlobAccess) enter() { b.st.calls++; b.st.depthInBase = b.st.s.depth() }

func (b baseBlobAccess) buf() buffer.Buffer {
	switch b.st.mode {
	case "error":
		return buffer.NewBufferFromError(errBase)
	case "stream", "stream-discard":
		return buffer.NewCASBufferFromReader(blobDigest, &probeReader{st: b.st, r: bytes.NewReader(blobData)}, buffer.UserProvided)
	case "stream-error":
		return buffer.NewCASBufferFromReader(blobDigest, &probeReader{st: b.st, fail: true}, buffer.UserProvided)
	default:
		return buffer.NewValidatedBufferFromByteSlice(blobData)
	}
}

func (b baseBlobAccess) Get(ctx context.Context, d digest.Digest) buffer.Buffer {
	b.enter()
	return b.buf()
}

func (b baseBlobAccess) GetFromComposite(ctx context.Context, parentDigest, childDigest digest.Digest, slicer slicing.BlobSlicer) buffer.Buffer {
	b.enter()
	return b.buf()
}

func (b baseBlobAccess) Put(ctx context.Context, d digest.Digest, buf buffer.Buffer) error {
	b.enter()
	buf.Discard()
	if b.st.mode == "error" {
		return errBase
	}
	return nil
}

func (b baseBlobAccess) FindMissing(ctx context.Context, digests digest.Set) (digest.Set, error) {
	b.enter()
	if b.st.mode == "error" {
		return digest.EmptySet, errBase
	}
	return digest.EmptySet, nil
}

func (b baseBlobAccess) GetCapabilities(ctx context.Context, instanceName digest.InstanceName) (*remoteexecution.ServerCapabilities, error) {
	b.enter()
	if b.st.mode == "error" {
		return nil, errBase
	}
	return &remoteexecution.ServerCapabilities{}, nil
}

type baseDirectoryFetcher struct{ st *wrapState }

func (b baseDirectoryFetcher) answer() (*remoteexecution.Directory, error) {
	b.st.calls++
	b.st.depthInBase = b.st.s.depth()
	if b.st.mode == "error" {
		return nil, errBase
	}
	return &remoteexecution.Directory{}, nil
}

func (b baseDirectoryFetcher) GetDirectory(ctx context.Context, d digest.Digest) (*remoteexecution.Directory, error) {
	return b.answer()
}

func (b baseDirectoryFetcher) GetTreeRootDirectory(ctx context.Context, d digest.Digest) (*remoteexecution.Directory, error) {
	return b.answer()
}

func (b baseDirectoryFetcher) GetTreeChildDirectory(ctx context.Context, t, c digest.Digest) (*remoteexecution.Directory, error) {
	return b.answer()
}

func wrapOp(name, mode string, call func(st *wrapState) (gotErr bool)) mc.SeqOp {
	full := name + "/" + mode
	return mc.SeqOp{
		Name: full,
		Do: func(c *mc.SeqCtx, s any) {
			st := s.(*wrapState)
			st.mode = mode
			before, callsBefore := st.s.depth(), st.calls
			st.depthInBase = -1
			st.depthInStream, st.streamClosed = -1, false
			gotErr := call(st)
			st.ops++
			if mode == "stream" || mode == "stream-discard" || mode == "stream-error" {
				// "time during which the worker was stalled on storage" is
				// excluded: a stream-backed buffer is read from storage while
				// it is being consumed, so the suspension must still be in
				// force at every Read of the stream (Resume only at
				// end-of-stream / discard / error).
				switch {
				case (st.depthInStream == -1 && mode != "stream-discard") || !st.streamClosed:
					c.FailP(prop, "wrapper/stream-not-consumed/"+name, "%s: the stream behind the returned buffer was not read and closed (harness expectation)", full)
				case st.depthInStream != -1 && st.depthInStream < before+1:
					c.FailP(prop, "wrapper/resumed-before-drained/"+name, "%s: suspension depth %d (expected %d) while the consumer was reading the stream behind the returned buffer: the clock was resumed when the base call returned, not when the buffer was drained - the storage stall during consumption counts as run time", full, st.depthInStream, before+1)
				}
			}
			if st.calls != callsBefore+1 {
				c.FailP(prop, "wrapper/base-calls/"+name, "%s: %d calls of the base instead of exactly one", full, st.calls-callsBefore)
			}
			if st.depthInBase != before+1 {
				c.FailP(prop, "wrapper/not-suspended/"+name, "%s: suspension depth inside the base call is %d, expected %d (exactly one Suspend before the call)", full, st.depthInBase, before+1)
			}
			if st.s.negative {
				c.FailP(prop, "wrapper/negative/"+name, "%s: more Resume than Suspend calls", full)
			}
			if st.s.depth() != before {
				c.FailP(prop, "wrapper/unbalanced/"+name, "%s: suspension depth %d after the call completed (before: %d; suspends=%d resumes=%d)", full, st.s.depth(), before, st.s.suspends, st.s.resumes)
			}
			wantErr := mode == "error" || mode == "stream-error"
			if gotErr != wantErr {
				c.FailP(prop, "wrapper/result/"+name, "%s: error=%v, expected error=%v (results must be forwarded)", full, gotErr, wantErr)
			}
		},
	}
}

func consume(st *wrapState, b buffer.Buffer) bool {
	if st.mode == "stream-discard" {
		b.Discard()
		return false
	}
	data, err := b.ToByteSlice(1000)
	if err == nil && !bytes.Equal(data, blobData) {
		return true
	}
	return err != nil
}

func seqs() []*mc.Seq {
	ctx := context.Background()
	var ops []mc.SeqOp
	for _, mode := range []string{"ok", "stream", "stream-discard", "stream-error", "error"} {
		ops = append(ops,
			wrapOp("Get", mode, func(st *wrapState) bool { return consume(st, st.ba.Get(ctx, blobDigest)) }),
			wrapOp("GetFromComposite", mode, func(st *wrapState) bool {
				return consume(st, st.ba.GetFromComposite(ctx, blobDigest, blobDigest, nil))
			}),
		)
	}
	for _, mode := range []string{"ok", "error"} {
		ops = append(ops,
			wrapOp("Put", mode, func(st *wrapState) bool {
				return st.ba.Put(ctx, blobDigest, buffer.NewValidatedBufferFromByteSlice(blobData)) != nil
			}),
			wrapOp("FindMissing", mode, func(st *wrapState) bool {
				_, err := st.ba.FindMissing(ctx, digest.EmptySet)
				return err != nil
			}),
			wrapOp("GetCapabilities", mode, func(st *wrapState) bool {
				_, err := st.ba.GetCapabilities(ctx, digest.EmptyInstanceName)
				return err != nil
			}),
			wrapOp("GetDirectory", mode, func(st *wrapState) bool {
				_, err := st.df.GetDirectory(ctx, blobDigest)
				return err != nil
			}),
			wrapOp("GetTreeRootDirectory", mode, func(st *wrapState) bool {
				_, err := st.df.GetTreeRootDirectory(ctx, blobDigest)
				return err != nil
			}),
			wrapOp("GetTreeChildDirectory", mode, func(st *wrapState) bool {
				_, err := st.df.GetTreeChildDirectory(ctx, blobDigest, blobDigest)
				return err != nil
			}),
		)
	}
	return []*mc.Seq{{
		Name:  "suspending-wrappers",
		Props: []string{prop},
		New: func(c *mc.SeqCtx) any {
			st := &wrapState{s: &countingSuspendable{}}
			st.ba = re_blobstore.NewSuspendingBlobAccess(baseBlobAccess{st}, st.s)
			st.df = cas.NewSuspendingDirectoryFetcher(baseDirectoryFetcher{st}, st.s)
			return st
		},
		Ops: ops,
		Key: func(s any) string {
			st := s.(*wrapState)
			// The wrappers are stateless: the state is the
			// suspension depth (0 unless a defect leaked one) and
			// the number of operations.
			return fmt.Sprintf("depth=%d ops=%d", st.s.depth(), st.ops)
		},
		Depth:  map[string]int{"quick": 2, "thorough": 2},
		Panics: []string{prop},
	}}
}
