package schedseq

import (
	"sort"

	"github.com/buildbarn/bb-remote-execution/pkg/proto/buildqueuestate"
	"github.com/buildbarn/bb-remote-execution/pkg/scheduler/invocation"
	"google.golang.org/protobuf/types/known/anypb"
)

// doList is the "list" letter: the operator lists, for every invocation with
// queued work, its queued child invocations (documented: "sorted by priority
// at which operations are scheduled") and its queued operations, and the
// orders are compared with the reference model. Pairs the policy leaves open
// (ties) are accepted in either order. The calls re-sort the heaps of the
// implementation, so they are part of the explored histories.
func (s *sys) doList() {
	type target struct {
		pq *mPq
		q  *mScq
	}
	var targets []target
	s.mu.Lock()
	s.m.expire(s.clock.Now())
	for _, pk := range s.m.sortedPqKeys() {
		pq := s.m.pqs[pk]
		for _, sc := range pq.sizeClasses() {
			targets = append(targets, target{pq, pq.scqs[sc]})
		}
	}
	s.mu.Unlock()
	for _, t := range targets {
		if !s.listInvocation(t.pq, t.q, nil) {
			return
		}
	}
}

// listInvocation returns false when checking must stop.
func (s *sys) listInvocation(pq *mPq, q *mScq, path []string) bool {
	for _, k := range s.listOne(pq, q, path) {
		if !s.listInvocation(pq, q, append(append([]string(nil), path...), k)) {
			return false
		}
	}
	s.mu.Lock()
	defer s.mu.Unlock()
	return !s.broken && !s.torn
}

// listOne lists one invocation and returns the children to descend into.
func (s *sys) listOne(pq *mPq, q *mScq, path []string) []string {
	s.mu.Lock()
	if s.broken || s.torn {
		s.mu.Unlock()
		return nil
	}
	name := &buildqueuestate.InvocationName{SizeClassQueueName: scqName(q.key.prefix, q.key.platform, q.key.sc)}
	for _, n := range path {
		name.Ids = append(name.Ids, s.nameKeys[n].GetID())
	}
	// Queued operations of this invocation.
	var direct []*mOp
	for _, o := range q.queued {
		if pathStr(o.path) == pathStr(path) {
			direct = append(direct, o)
		}
	}
	childSet := queuedChildSet(q, path)
	s.mu.Unlock()
	ops, err := s.bq.ListQueuedOperations(s.ctx, &buildqueuestate.ListQueuedOperationsRequest{InvocationName: name, PageSize: 1000})
	resp, err2 := s.bq.ListInvocationChildren(s.ctx, &buildqueuestate.ListInvocationChildrenRequest{InvocationName: name, Filter: buildqueuestate.ListInvocationChildrenRequest_QUEUED})
	s.mu.Lock()
	defer s.mu.Unlock()
	if s.torn || s.broken {
		return nil
	}
	if err != nil {
		if len(direct) > 0 || len(queuedChildSet(q, path)) > 0 {
			s.fail("C04", "list/error", "ListQueuedOperations(%v) failed: %v", path, err)
		}
		return nil
	}
	var listed []*mOp
	for _, o := range ops.QueuedOperations {
		t := s.m.tasks[o.ActionDigest.GetHash()]
		var mo *mOp
		if t != nil {
			mo = t.opAt(path)
		}
		if t == nil || t.state != tQueued || mo == nil || t.scq != q.key {
			s.fail("C04", "list/unknown-operation", "ListQueuedOperations(%v) of %v lists %s which is not queued there in the model", path, q.key, o.ActionDigest.GetHash()[:6])
			return nil
		}
		listed = append(listed, mo)
	}
	if len(listed) != len(direct) {
		s.fail("C04", "list/operations-count", "ListQueuedOperations(%v) of %v lists %d operations, the model has %d", path, q.key, len(listed), len(direct))
		return nil
	}
	for i := 0; i < len(listed); i++ {
		for j := i + 1; j < len(listed); j++ {
			if directBefore(listed[j], listed[i]) {
				s.fail("C04", "list/operations-order", "ListQueuedOperations(%v) lists %s (p%d d%v q@%v) before %s (p%d d%v q@%v), contrary to the documented order", path,
					listed[i].t.letter, listed[i].prio, listed[i].t.dur, listed[i].t.queuedAt.Sub(epoch), listed[j].t.letter, listed[j].prio, listed[j].t.dur, listed[j].t.queuedAt.Sub(epoch))
				return nil
			}
		}
	}
	// Queued child invocations.
	if err2 != nil {
		s.fail("C04", "list/error", "ListInvocationChildren(%v) failed: %v", path, err2)
		return nil
	}
	infos := map[string]*childInfo{}
	for _, c := range s.m.childInfos(pq, q, path, childSet) {
		infos[c.key] = c
	}
	var order []*childInfo
	for _, c := range resp.Children {
		n := s.idName(c.Id)
		ci := infos[n]
		if ci == nil {
			s.fail("C04", "list/unknown-child", "ListInvocationChildren(%v, QUEUED) lists %q which has no queued operations in the model", path, n)
			return nil
		}
		order = append(order, ci)
	}
	if len(order) != len(infos) {
		s.fail("C04", "list/children-count", "ListInvocationChildren(%v, QUEUED) lists %d children, the model has %d", path, len(order), len(infos))
		return nil
	}
	for i := 0; i < len(order); i++ {
		for j := i + 1; j < len(order); j++ {
			if definitelyBefore(order[j], order[i]) {
				s.fail("C04", "list/children-order", "ListInvocationChildren(%v, QUEUED) lists %s (executing+1=%d prio %v last served %v) before %s (executing+1=%d prio %v last served %v), contrary to the documented order", path,
					order[i].key, order[i].e, order[i].prios, order[i].last.lo.Sub(epoch), order[j].key, order[j].e, order[j].prios, order[j].last.hi.Sub(epoch))
				return nil
			}
		}
	}
	var keys []string
	for k := range childSet {
		keys = append(keys, k)
	}
	sort.Strings(keys)
	return keys
}

func (s *sys) idName(id *anypb.Any) string {
	k, err := invocation.NewKey(id)
	if err != nil {
		return "?"
	}
	if n, ok := s.keyNames[string(k)]; ok {
		return n
	}
	return "?" + string(k)
}
