// Package worker is the model checking harness for property C08: the real
// builder.BuildClient, driven by the real builder.LaunchWorkerThread loop,
// against a scripted scheduler, an instrumented BuildExecutor and a manual
// clock. See mc_test.go for the scenarios and props.json for what is claimed.
package worker

import (
	"context"
	"fmt"
	"strings"
	"sync"
	"time"

	"verif/mc"

	remoteexecution "github.com/bazelbuild/remote-apis/build/bazel/remote/execution/v2"
	"github.com/buildbarn/bb-remote-execution/pkg/builder"
	"github.com/buildbarn/bb-remote-execution/pkg/filesystem/access"
	"github.com/buildbarn/bb-remote-execution/pkg/filesystem/pool"
	"github.com/buildbarn/bb-remote-execution/pkg/proto/remoteworker"
	"github.com/buildbarn/bb-storage/pkg/clock"
	"github.com/buildbarn/bb-storage/pkg/digest"
	"github.com/buildbarn/bb-storage/pkg/program"

	"google.golang.org/grpc"
	"google.golang.org/grpc/codes"
	"google.golang.org/grpc/status"
	"google.golang.org/protobuf/proto"
	"google.golang.org/protobuf/types/known/emptypb"
	"google.golang.org/protobuf/types/known/timestamppb"
)

const prop = "C08"

// reply is one letter of the scheduler's alphabet.
type reply int

const (
	rNone      reply = iota // valid timestamp, no desired state
	rExecOther              // execute an action with the "other" digest (a1 first)
	rExecSame               // execute a fresh action with the digest of the current one
	rIdle                   // desired state idle
	rErr                    // RPC error
	rBadTS                  // desired state execute, but invalid timestamp
	rBadExec                // desired state execute with an unusable digest function
	rUnknown                // desired state with an empty oneof
)

var replyNames = map[reply]string{
	rNone: "none", rExecOther: "execOther", rExecSame: "execSame", rIdle: "idle",
	rErr: "rpcError", rBadTS: "badTimestamp", rBadExec: "badExec", rUnknown: "unknownDesired",
}

type config struct {
	budget       int     // Synchronize calls answered from the menu; later ones block until shutdown and say "idle"
	maxProgress  int     // progress updates per execution
	maxJumps     int     // 45 s clock jumps per run (cost 1 each)
	maxReadyFail int     // readiness failures per run (cost 1 each)
	execSame     bool    // offer "execute same digest again"
	noNone       bool    // do not offer "no desired state" (keeps some scenarios small)
	faults       []reply // fault replies (cost 1 each)
	failCost     bool    // non-OK completion costs a deviation
	shutdownCost int     // 0 = free
	late         bool    // scheduling points between Run's select and Synchronize (clock.Now after the drain, ctx.Err before Synchronize)
}

const (
	syncInterval = 10 * time.Second
	jumpSize     = 45 * time.Second
	grace        = time.Minute
)

var base = time.Unix(1000000, 0)

const (
	cmdProgress = iota
	cmdOK
	cmdFail
)

type execution struct {
	ord      int
	dig      int
	req      *remoteworker.DesiredState_Executing
	ctx      context.Context
	updates  chan<- *remoteworker.CurrentState_Executing
	cmd      chan int
	active   bool
	sent     []*remoteworker.CurrentState_Executing
	resp     *remoteexecution.ExecuteResponse
	respCopy *remoteexecution.ExecuteResponse
	failed   bool
	stale    int
}

type fakeTimer struct {
	e        *env
	deadline time.Duration
	ch       chan time.Time
	fired    bool
	stopped  bool
}

type pendingFail struct{ fp, msg string }

type env struct {
	x   *mc.X
	cfg config
	mu  sync.Mutex

	bc         *builder.BuildClient
	ctx        context.Context
	cancel     context.CancelFunc
	shutdownCh chan struct{}
	shutdown   bool

	// Manual clock.
	now   time.Duration
	timer *fakeTimer

	// Where the worker thread is.
	started, done, atHook   bool
	inSelect, expectBackoff bool
	runBoundary, termBefore bool
	now1Pending, mustExit   bool
	swapped, overWait       bool
	pastSelect              bool // this Run has left its select (a fake call was made since)
	atLate                  bool // parked at one of the two scheduling points between Run's select and Synchronize
	syncCount, readyFails   int
	ctxReadyFails           int
	jumps                   int
	reqLog                  []string
	sentExec                []*remoteworker.DesiredState_Executing
	lastReqKind             int

	// Reference model of what the scheduler may believe.
	mayThink bool
	// certainIdle: the scheduler explicitly ordered idle, or desired nothing
	// while the worker reported idle. Only then is termination demanded.
	certainIdle bool
	// lostIdle: the reply to the last request was lost (CANCELED) but it
	// ordered idle / desired nothing while the worker was not executing.
	lostIdle bool
	exitNote string
	d, n        time.Duration

	// Monitor state.
	needReadiness bool
	wantIdle      bool
	wantNew       bool // the next request must be about an execution with ord > wantNewAfter
	wantNewAfter  int

	execs []*execution
	fails []pendingFail
}

func newEnv(x *mc.X, c config) *env {
	e := &env{x: x, cfg: c, shutdownCh: make(chan struct{}), runBoundary: true, certainIdle: true}
	e.ctx, e.cancel = context.WithCancel(context.Background())
	return e
}

// fail queues a violation; flush reports it (never while holding e.mu).
func (e *env) fail(fp, format string, args ...any) {
	e.fails = append(e.fails, pendingFail{fp, fmt.Sprintf(format, args...)})
}

func (e *env) flush() {
	e.mu.Lock()
	f := e.fails
	e.fails = nil
	e.mu.Unlock()
	if e.x.Free() {
		return
	}
	for _, p := range f {
		e.x.FailP(prop, p.fp, "%s", p.msg)
	}
}

func (e *env) abs(d time.Duration) time.Time { return base.Add(d) }

func (e *env) point(label string) {
	e.mu.Lock()
	e.atHook = true
	e.mu.Unlock()
	e.x.Point(label)
	e.mu.Lock()
	e.atHook = false
	e.mu.Unlock()
}

// latePoint is a scheduling point between Run's select and the Synchronize
// call. Only executor events (progress, completion) are offered there:
// shutdown and clock jumps at these places are equivalent to the same event
// while the thread sits in the select just before, or in the Synchronize
// call just after (both are offered).
func (e *env) latePoint(label string) {
	e.mu.Lock()
	e.atLate = true
	e.mu.Unlock()
	e.point(label)
	e.mu.Lock()
	e.atLate = false
	e.mu.Unlock()
}

func (e *env) choose(label string, n int, free bool) int {
	e.mu.Lock()
	e.atHook = true
	e.mu.Unlock()
	var c int
	if free {
		c = e.x.ChooseFree(label, n)
	} else {
		c = e.x.Choose(label, n)
	}
	e.mu.Lock()
	e.atHook = false
	e.mu.Unlock()
	return c
}

// nativeBlocked is meaningful at quiescent points only.
func (e *env) nativeBlocked() bool { return e.started && !e.done && !e.atHook }

// enter is called at the beginning of every fake call made by the worker
// thread. The first fake call after a Synchronize return / readiness failure
// is the first call of a new BuildClient.Run; no scheduling point lies between
// the top of LaunchWorkerThread's loop body and that call, so the value of the
// shutdown flag here equals ctx.Err() != nil at the top of Run.
func (e *env) enter(call string) {
	e.mu.Lock()
	defer e.mu.Unlock()
	if !e.started {
		return
	}
	if e.inSelect {
		e.pastSelect = true
	}
	e.inSelect = false
	e.expectBackoff = false
	if e.mustExit {
		e.fail("noexit/deadline-passed", "shutdown began and the clock (%v) passed the deadline %v after which the scheduler cannot believe the worker is executing, but the worker thread called %s instead of terminating", e.now, e.d, call)
	}
	if e.runBoundary {
		e.runBoundary = false
		e.pastSelect = false
		e.termBefore = e.shutdown
		e.swapped = false
		if e.shutdown && !e.mayThink && e.certainIdle {
			e.fail("noexit/idle", "shutdown began and the last exchange left the scheduler unable to believe the worker is executing, but the worker thread called %s instead of terminating (requests so far: %v)", call, e.reqLog)
		}
		if e.shutdown && e.mayThink && call == "Now" {
			e.now1Pending = true
		}
	}
}

// ---------------------------------------------------------------------------
// clock.Clock

type fakeClock struct{ e *env }

func (c fakeClock) Now() time.Time {
	e := c.e
	e.enter("Now")
	e.flush()
	// The clock reading that follows the select of Run (taken after the
	// update channel was drained, before the request is built) is a
	// scheduling point: the executor can publish progress or its completion
	// right there.
	e.mu.Lock()
	after := e.cfg.late && e.pastSelect && !e.runBoundary
	e.mu.Unlock()
	if after {
		tag := fmt.Sprintf("Now:after-select/%v", e.termBefore)
		e.x.ResetLocal(tag)
		e.latePoint("clock.Now:after-select")
		e.x.ResetLocal(tag)
	}
	e.mu.Lock()
	defer e.mu.Unlock()
	if e.now1Pending {
		e.now1Pending = false
		if e.now > e.d {
			e.mustExit = true
		}
	}
	return e.abs(e.now)
}

func (c fakeClock) NewContextWithTimeout(parent context.Context, timeout time.Duration) (context.Context, context.CancelFunc) {
	panic("not used by BuildClient")
}

func (c fakeClock) NewTicker(d time.Duration) (clock.Ticker, <-chan time.Time) {
	panic("not used by BuildClient")
}

func (c fakeClock) NewTimer(d time.Duration) (clock.Timer, <-chan time.Time) {
	e := c.e
	e.enter("NewTimer")
	e.flush()
	e.x.ResetLocal(fmt.Sprintf("NewTimer/%v", e.termBefore))
	e.point("clock.NewTimer")
	e.x.ResetLocal(fmt.Sprintf("select/%v", e.termBefore))
	e.mu.Lock()
	defer e.mu.Unlock()
	t := &fakeTimer{e: e, deadline: e.now + d, ch: make(chan time.Time, 1)}
	e.timer = t
	e.inSelect = true
	return t, t.ch
}

func (t *fakeTimer) Stop() bool {
	t.e.enter("Stop")
	t.e.flush()
	t.e.mu.Lock()
	defer t.e.mu.Unlock()
	t.stopped = true
	return !t.fired
}

// ---------------------------------------------------------------------------
// The worker thread's context

// workerCtx is the context handed to LaunchWorkerThread's routine. Its Err()
// is a scheduling point at ONE place: the call Run makes after its select
// (timer expired or update applied) and before it calls Synchronize, i.e.
// after the request's execution state and prefer_being_idle were derived.
// The executor can publish progress / its completion there.
// All other Err() calls (top of the loop, top of Run, after Run returned)
// lie before the first fake call of a Run and are not scheduling points,
// which keeps enter()'s reasoning about Run boundaries valid. The fakes
// read the context through ctxErr(), never through this method.
type workerCtx struct {
	context.Context
	e *env
}

func (c workerCtx) Err() error {
	e := c.e
	e.mu.Lock()
	after := e.cfg.late && e.started && !e.done && !e.runBoundary && (e.inSelect || e.pastSelect)
	var tag string
	if after {
		kind, _ := classify(builder.VerifWorkerDump(e.bc).CurrentState)
		tag = fmt.Sprintf("ctx.Err:before-sync/%v/%d", e.termBefore, kind)
	}
	e.mu.Unlock()
	if after {
		e.x.ResetLocal(tag)
		e.latePoint("ctx.Err:before-sync")
	}
	return c.Context.Err()
}

func ctxErr(ctx context.Context) error {
	if c, ok := ctx.(workerCtx); ok {
		return c.Context.Err()
	}
	return ctx.Err()
}

// ---------------------------------------------------------------------------
// builder.BuildExecutor

type fakeExecutor struct{ e *env }

func (f fakeExecutor) CheckReadiness(ctx context.Context) error {
	e := f.e
	e.enter("CheckReadiness")
	e.flush()
	e.mu.Lock()
	n := 1
	if e.readyFails < e.cfg.maxReadyFail {
		n = 2
	}
	e.mu.Unlock()
	e.x.ResetLocal(fmt.Sprintf("CheckReadiness/%v", e.termBefore))
	c := e.choose("CheckReadiness", n, false)
	e.x.ResetLocal(fmt.Sprintf("CheckReadiness=%d/%v", c, e.termBefore))
	e.mu.Lock()
	defer e.mu.Unlock()
	if ctxErr(ctx) != nil {
		// Model of the real runner client (a gRPC call): it fails once the
		// context it was given is cancelled, i.e. always after shutdown
		// began unless the caller swapped the context.
		e.runBoundary = true
		e.expectBackoff = true
		e.ctxReadyFails++
		return status.Error(codes.Canceled, "context canceled")
	}
	if c == 1 {
		e.readyFails++
		e.runBoundary = true
		e.expectBackoff = true
		return status.Error(codes.Unavailable, "runner is not ready")
	}
	e.needReadiness = false
	return nil
}

func (f fakeExecutor) Execute(ctx context.Context, filePool pool.FilePool, monitor access.UnreadDirectoryMonitor, digestFunction digest.Function, request *remoteworker.DesiredState_Executing, updates chan<- *remoteworker.CurrentState_Executing) *remoteexecution.ExecuteResponse {
	e := f.e
	e.mu.Lock()
	ex := &execution{ord: len(e.execs), req: request, ctx: ctx, updates: updates, cmd: make(chan int, 1), active: true}
	ex.dig = digestID(request.ActionDigest)
	for _, o := range e.execs {
		if o.active {
			e.fail("two-active", "Execute() for action a%d entered while the executor of execution #%d (action a%d) had not returned yet (its context cancelled: %v)", ex.dig, o.ord, o.dig, o.ctx.Err() != nil)
		}
	}
	known := false
	for _, r := range e.sentExec {
		if r == request || proto.Equal(r, request) {
			known = true
		}
	}
	if !known {
		e.fail("execute-unrequested", "Execute() called with a request the scheduler never sent")
	}
	e.execs = append(e.execs, ex)
	e.mu.Unlock()
	e.flush()
	e.x.Logf("Execute #%d (a%d) entered", ex.ord, ex.dig)
	for {
		c := <-ex.cmd
		switch c {
		case cmdProgress:
			u := &remoteworker.CurrentState_Executing{ActionDigest: request.ActionDigest}
			e.mu.Lock()
			if len(ex.sent)%2 == 0 {
				u.ExecutionState = &remoteworker.CurrentState_Executing_FetchingInputs{FetchingInputs: &emptypb.Empty{}}
			} else {
				u.ExecutionState = &remoteworker.CurrentState_Executing_Running{Running: &emptypb.Empty{}}
			}
			ex.sent = append(ex.sent, u)
			e.mu.Unlock()
			updates <- u
		default:
			resp := &remoteexecution.ExecuteResponse{
				Result:  &remoteexecution.ActionResult{ExitCode: int32(ex.ord)},
				Message: fmt.Sprintf("execution #%d of a%d", ex.ord, ex.dig),
			}
			if c == cmdFail {
				code := []codes.Code{codes.Internal, codes.Unavailable, codes.DeadlineExceeded}[ex.ord%3]
				if ctx.Err() != nil {
					code = codes.Canceled
				}
				resp.Status = status.New(code, "runner failed").Proto()
			}
			e.mu.Lock()
			ex.resp = resp
			ex.respCopy = proto.Clone(resp).(*remoteexecution.ExecuteResponse)
			ex.failed = c == cmdFail
			ex.active = false
			e.mu.Unlock()
			e.x.Logf("Execute #%d (a%d) returns %q failed=%v (ctx cancelled: %v)", ex.ord, ex.dig, resp.Message, ex.failed, ctx.Err() != nil)
			return resp
		}
	}
}

// ---------------------------------------------------------------------------
// program.Group

type fakeGroup struct{ e *env }

func (g fakeGroup) Go(routine program.Routine) {
	e := g.e
	e.x.Go("worker", func() {
		e.mu.Lock()
		e.started = true
		e.mu.Unlock()
		err := routine(workerCtx{Context: e.ctx, e: e}, g, g)
		e.x.Logf("worker thread returned (err=%v)", err)
		e.mu.Lock()
		e.done = true
		e.inSelect = false
		e.expectBackoff = false
		e.exitNote = fmt.Sprintf("exit(err=%v,shutdown=%v)", err, e.shutdown)
		if e.mayThink && !e.lostIdle && !(e.now > e.d) {
			e.fail("exit/scheduler-may-think-executing", "worker thread terminated at clock %v (shutdown begun: %v) although the last exchange (%v) left the scheduler able to believe it is executing until %v", e.now, e.shutdown, e.reqLog, e.d)
		}
		e.mu.Unlock()
		e.flush()
	})
}

// ---------------------------------------------------------------------------
// remoteworker.OperationQueueClient

const (
	kIdle = iota
	kExec
	kDone
)

var hashes = []string{
	"",
	"e3b0c44298fc1c149afbf4c8996fb92427ae41e4649b934ca495991b7852b855",
	"5feceb66ffc86f38d952786c6d696c79c2dbc239dd4e91b46729d73a27fb57e9",
}

func digestOf(id int) *remoteexecution.Digest {
	return &remoteexecution.Digest{Hash: hashes[id], SizeBytes: int64(100 + id)}
}

func digestID(d *remoteexecution.Digest) int {
	for i := 1; i < len(hashes); i++ {
		if d != nil && d.Hash == hashes[i] && d.SizeBytes == int64(100+i) {
			return i
		}
	}
	return 0
}

func classify(cs *remoteworker.CurrentState) (kind int, ex *remoteworker.CurrentState_Executing) {
	switch s := cs.GetWorkerState().(type) {
	case *remoteworker.CurrentState_Idle:
		return kIdle, nil
	case *remoteworker.CurrentState_Executing_:
		if _, ok := s.Executing.ExecutionState.(*remoteworker.CurrentState_Executing_Completed); ok {
			return kDone, s.Executing
		}
		return kExec, s.Executing
	}
	return -1, nil
}

func (e *env) cur() *execution {
	if len(e.execs) == 0 {
		return nil
	}
	return e.execs[len(e.execs)-1]
}

// progressIndex: 0 = Started (set by the client), k = k-th update sent by
// the executor, -1 = not a state the executor ever reported.
func progressIndex(c *execution, ex *remoteworker.CurrentState_Executing) int {
	if _, ok := ex.ExecutionState.(*remoteworker.CurrentState_Executing_Started); ok {
		return 0
	}
	if c != nil {
		for i, u := range c.sent {
			if u == ex || proto.Equal(u, ex) {
				return i + 1
			}
		}
	}
	return -1
}

type fakeScheduler struct{ e *env }

func (s fakeScheduler) Synchronize(ctx context.Context, in *remoteworker.SynchronizeRequest, opts ...grpc.CallOption) (*remoteworker.SynchronizeResponse, error) {
	e := s.e
	e.enter("Synchronize")
	e.mu.Lock()
	e.syncCount++
	count := e.syncCount
	kind, ex := classify(in.CurrentState)
	pbi := in.PreferBeingIdle
	c := e.cur()
	active := 0
	for _, o := range e.execs {
		if o.active {
			active++
		}
	}
	desc := "?"
	curOrd := -1
	if c != nil {
		curOrd = c.ord
	}
	switch kind {
	case kIdle:
		desc = "I"
		if active > 0 {
			e.fail("dishonest/idle-while-executor-alive", "request #%d reports Idle while %d fake Execute call(s) have not returned", count, active)
		}
	case kExec:
		desc = fmt.Sprintf("E%d.%d", digestID(ex.ActionDigest), progressIndex(c, ex))
		if c == nil || c.dig != digestID(ex.ActionDigest) || !proto.Equal(c.req.ActionDigest, ex.ActionDigest) {
			e.fail("dishonest/executing-wrong-action", "request #%d reports Executing(a%d) but the most recently started executor is %s", count, digestID(ex.ActionDigest), descExec(c))
		} else if progressIndex(c, ex) < 0 {
			e.fail("dishonest/unknown-progress", "request #%d reports an execution state for a%d that executor #%d never published", count, c.dig, c.ord)
		} else if !c.active {
			// The executor returned before this request was built. One
			// such report is tolerated (the client may not have looked
			// at the update channel yet), a second one means that the
			// completion is not being reported.
			c.stale++
			if c.stale > 1 {
				e.fail("dishonest/completion-not-reported", "request #%d is the second one that reports a%d as still executing after executor #%d returned", count, c.dig, c.ord)
			}
		}
	case kDone:
		r := ex.ExecutionState.(*remoteworker.CurrentState_Executing_Completed).Completed
		failed := status.ErrorProto(r.GetStatus()) != nil
		desc = fmt.Sprintf("C%d.ok", digestID(ex.ActionDigest))
		if failed {
			desc = fmt.Sprintf("C%d.fail", digestID(ex.ActionDigest))
		}
		switch {
		case c == nil || c.active:
			e.fail("dishonest/completed-but-not-returned", "request #%d reports Completed(a%d) but the most recently started executor is %s", count, digestID(ex.ActionDigest), descExec(c))
		case c.dig != digestID(ex.ActionDigest) || !proto.Equal(c.req.ActionDigest, ex.ActionDigest):
			e.fail("dishonest/completed-wrong-action", "request #%d reports Completed(a%d) but the executor that just finished is %s", count, digestID(ex.ActionDigest), descExec(c))
		case !proto.Equal(r, c.respCopy):
			e.fail("dishonest/completed-wrong-response", "request #%d reports Completed(a%d) with response %q, but executor #%d returned %q", count, c.dig, r.GetMessage(), c.ord, c.respCopy.GetMessage())
		}
		if failed && !pbi {
			e.fail("pbi/after-failure", "request #%d reports a completion with non-OK status without prefer_being_idle", count)
		}
		if failed {
			e.needReadiness = true
		}
	default:
		e.fail("dishonest/no-state", "request #%d carries no worker state", count)
	}
	if pbi {
		desc += "*"
	}
	if e.needReadiness && !pbi {
		e.fail("pbi/before-readiness-recheck", "request #%d (%s) does not ask to stay idle although a completion with non-OK status was reported and readiness has not been re-checked since", count, desc)
	}
	if e.shutdown {
		if !pbi {
			e.fail("pbi/after-shutdown", "request #%d (%s) was sent after shutdown began without prefer_being_idle", count, desc)
		}
		if ctxErr(ctx) != nil {
			e.fail("ctx/cancelled-at-send", "request #%d (%s) was sent after shutdown began with an already cancelled context", count, desc)
		}
	}
	if e.wantIdle && kind != kIdle {
		e.fail("disobey/not-idle", "scheduler ordered idle in reply to request #%d, but request #%d reports %s", count-1, count, desc)
	}
	if e.wantNew && (kind == kIdle || curOrd <= e.wantNewAfter) {
		e.fail("disobey/not-started", "scheduler ordered an action in reply to request #%d, but request #%d reports %s and no new executor was started", count-1, count, desc)
	}
	e.wantIdle = false
	e.wantNew = false
	e.reqLog = append(e.reqLog, desc)
	e.lastReqKind = kind
	e.swapped = e.shutdown
	// From the moment the request is in flight the scheduler may hand
	// out work, so it may believe the worker is executing.
	if !e.mayThink {
		e.mayThink = true
		e.d = e.n + grace
	}
	e.certainIdle = false
	e.lostIdle = false
	// Reply menu.
	var menu []reply
	if count <= e.cfg.budget {
		if pbi {
			// The protocol obliges the scheduler not to hand out
			// work to a worker that prefers being idle.
			menu = []reply{rIdle}
			if !e.cfg.noNone {
				menu = append(menu, rNone)
			}
		} else {
			switch kind {
			case kIdle:
				menu = []reply{rExecOther}
				if !e.cfg.noNone {
					menu = append(menu, rNone)
				}
				menu = append(menu, rIdle)
			case kExec:
				menu = []reply{rNone, rExecOther}
				if e.cfg.execSame {
					menu = append(menu, rExecSame)
				}
				menu = append(menu, rIdle)
			default:
				menu = []reply{rIdle, rExecOther}
				if e.cfg.execSame {
					menu = append(menu, rExecSame)
				}
				if !e.cfg.noNone {
					menu = append(menu, rNone)
				}
			}
		}
	}
	faults := e.cfg.faults
	if pbi {
		// Keep faults that hand out work away from requests that
		// prefer being idle.
		var f []reply
		for _, r := range faults {
			if r == rErr || r == rUnknown {
				f = append(f, r)
			}
		}
		faults = f
	}
	over := count > e.cfg.budget
	shutdownCh := e.shutdownCh
	shut := e.shutdown
	tag := fmt.Sprintf("%s/%v/%v", desc, e.termBefore, e.swapped)
	e.mu.Unlock()
	e.flush()
	e.x.Logf("Synchronize #%d: request %s (ctx cancelled: %v), executors: %s", count, desc, ctxErr(ctx) != nil, e.descExecs())

	var r reply
	lost := false
	if over {
		// Budget exhausted: behave like a long poll that is only
		// answered once shutdown has begun, and order idle.
		if !shut {
			e.x.ResetLocal("Synchronize:over/" + tag)
			e.mu.Lock()
			e.overWait = true
			e.mu.Unlock()
			<-shutdownCh
			e.mu.Lock()
			e.overWait = false
			e.mu.Unlock()
		}
		e.x.ResetLocal("Synchronize:final/" + tag)
		e.point("Synchronize:final")
		r = rIdle
		// A long poll that was issued with the context that shutdown
		// cancels is interrupted: the gRPC client returns CANCELED and
		// the scheduler never answered (it may still hand work to that
		// stream, so its belief stays as it was when the request went out).
		if ctxErr(ctx) != nil {
			r = rErr
			lost = true
		}
	} else {
		e.x.ResetLocal("Synchronize/" + tag)
		f := 0
		if len(faults) > 0 {
			f = e.choose("Synchronize:fault["+replyList(faults)+"]", 1+len(faults), false)
		}
		if f > 0 {
			r = faults[f-1]
		} else {
			r = menu[e.choose("Synchronize:reply["+replyList(menu)+"]", len(menu), true)]
		}
	}
	if !over && ctxErr(ctx) != nil {
		// Shutdown began while this call was in flight with the context
		// that shutdown cancels. A real gRPC client then fails the call
		// with CANCELED, whatever the scheduler did with the request
		// (answer 0); or the reply had just been received when the
		// context was cancelled and is delivered normally (answer 1).
		e.x.ResetLocal(fmt.Sprintf("Synchronize=%s?/%s", replyNames[r], tag))
		lost = e.choose("Synchronize:ctx-cancelled[CANCELED,delivered]", 2, true) == 0
	}
	e.x.ResetLocal(fmt.Sprintf("Synchronize=%s/%v/%s", replyNames[r], lost, tag))

	e.mu.Lock()
	defer e.mu.Unlock()
	e.runBoundary = true
	if lost {
		// The scheduler acted on the request (reply r), the worker only
		// sees CANCELED. Belief model as for an RPC error (the worker's
		// deadline does not move); remember when the lost reply left the
		// scheduler unable to believe the worker is executing, in which
		// case an exit is not a violation of the statement.
		e.reqLog[len(e.reqLog)-1] += ">CANCELED(" + replyNames[r] + ")"
		e.x.Logf("Synchronize #%d: reply %s lost, call fails with CANCELED", count, replyNames[r])
		e.lostIdle = r == rIdle || (r == rNone && kind != kExec)
		e.expectBackoff = true
		return nil, status.Error(codes.Canceled, "context canceled")
	}
	e.reqLog[len(e.reqLog)-1] += ">" + replyNames[r]
	e.x.Logf("Synchronize #%d: reply %s", count, replyNames[r])
	next := timestamppb.New(e.abs(e.now + syncInterval))
	newExec := func(dig int, fn remoteexecution.DigestFunction_Value) *remoteworker.DesiredState {
		req := &remoteworker.DesiredState_Executing{
			ActionDigest:   digestOf(dig),
			DigestFunction: fn,
			Action:         &remoteexecution.Action{CommandDigest: digestOf(dig), InputRootDigest: digestOf(dig)},
		}
		e.sentExec = append(e.sentExec, req)
		return &remoteworker.DesiredState{WorkerState: &remoteworker.DesiredState_Executing_{Executing: req}}
	}
	curDig := 0
	if c := e.cur(); c != nil {
		curDig = c.dig
	}
	other := 1
	if curDig == 1 {
		other = 2
	}
	curOrd = -1
	if c := e.cur(); c != nil {
		curOrd = c.ord
	}
	switch r {
	case rErr:
		e.expectBackoff = true
		return nil, status.Error(codes.Unavailable, "scheduler unreachable")
	case rBadTS:
		e.expectBackoff = true
		return &remoteworker.SynchronizeResponse{
			NextSynchronizationAt: &timestamppb.Timestamp{Seconds: 1, Nanos: -1},
			DesiredState:          newExec(other, remoteexecution.DigestFunction_SHA256),
		}, nil
	case rBadExec:
		e.expectBackoff = true
		e.n = e.now + syncInterval
		return &remoteworker.SynchronizeResponse{
			NextSynchronizationAt: next,
			DesiredState:          newExec(other, remoteexecution.DigestFunction_Value(9999)),
		}, nil
	case rUnknown:
		e.expectBackoff = true
		e.n = e.now + syncInterval
		return &remoteworker.SynchronizeResponse{NextSynchronizationAt: next, DesiredState: &remoteworker.DesiredState{}}, nil
	case rNone:
		e.n = e.now + syncInterval
		if kind == kExec {
			e.d = e.n + grace
		} else {
			e.mayThink = false
			e.certainIdle = kind == kIdle
		}
		return &remoteworker.SynchronizeResponse{NextSynchronizationAt: next}, nil
	case rIdle:
		e.n = e.now + syncInterval
		e.mayThink = false
		e.certainIdle = true
		e.wantIdle = true
		return &remoteworker.SynchronizeResponse{
			NextSynchronizationAt: next,
			DesiredState:          &remoteworker.DesiredState{WorkerState: &remoteworker.DesiredState_Idle{Idle: &emptypb.Empty{}}},
		}, nil
	case rExecOther, rExecSame:
		dig := other
		if r == rExecSame {
			dig = curDig
		}
		e.n = e.now + syncInterval
		e.mayThink = true
		e.d = e.n + grace
		e.wantNew = true
		e.wantNewAfter = curOrd
		if dig == 0 {
			dig = 1
		}
		return &remoteworker.SynchronizeResponse{NextSynchronizationAt: next, DesiredState: newExec(dig, remoteexecution.DigestFunction_SHA256)}, nil
	}
	panic("unreachable")
}

func replyList(l []reply) string {
	var s []string
	for _, r := range l {
		s = append(s, replyNames[r])
	}
	return strings.Join(s, ",")
}

func descExec(c *execution) string {
	if c == nil {
		return "<none>"
	}
	st := "returned"
	if c.active {
		st = "running"
	}
	return fmt.Sprintf("#%d for a%d (%s)", c.ord, c.dig, st)
}

func (e *env) descExecs() string {
	e.mu.Lock()
	defer e.mu.Unlock()
	var l []string
	for _, o := range e.execs {
		if o.active || o == e.cur() {
			l = append(l, descExec(o))
		}
	}
	return "[" + strings.Join(l, ", ") + "]"
}
