package cleaner

// The executor's own use of the build directory stack: the REAL
// builder.NewLocalBuildExecutor(...).Execute() / CheckReadiness() over the
// REAL Shared(Clean(Root(fakeDir), idleInvoker)) creator. Execute obtains a
// build directory, creates and enters the input root inside it, merges the
// input root, creates tmp / server_logs, runs the command, uploads stdout /
// stderr / server logs - and has to give the build directory back on EVERY
// path out of it ("when the action ends (normally, by error or by
// cancellation) its directory and everything in it is removed", and the
// IdleInvoker is released so that the busy->idle cleaning happens). Every
// operation of the fake directory, the fake runner and the fake CAS is a
// scheduling point and a fault position.

import (
	"context"
	"fmt"
	"time"

	remoteexecution "github.com/bazelbuild/remote-apis/build/bazel/remote/execution/v2"
	"github.com/buildbarn/bb-remote-execution/pkg/builder"
	"github.com/buildbarn/bb-remote-execution/pkg/filesystem/access"
	"github.com/buildbarn/bb-remote-execution/pkg/filesystem/pool"
	"github.com/buildbarn/bb-remote-execution/pkg/proto/remoteworker"
	runner_pb "github.com/buildbarn/bb-remote-execution/pkg/proto/runner"
	"github.com/buildbarn/bb-storage/pkg/blobstore"
	"github.com/buildbarn/bb-storage/pkg/blobstore/buffer"
	"github.com/buildbarn/bb-storage/pkg/blobstore/slicing"
	"github.com/buildbarn/bb-storage/pkg/clock"
	"github.com/buildbarn/bb-storage/pkg/digest"
	"github.com/buildbarn/bb-storage/pkg/filesystem/path"
	"github.com/buildbarn/bb-storage/pkg/util"

	"google.golang.org/grpc"
	"google.golang.org/grpc/codes"
	"google.golang.org/grpc/status"
	"google.golang.org/protobuf/types/known/durationpb"
	"google.golang.org/protobuf/types/known/emptypb"
)

var (
	sha256Function = digest.MustNewFunction("inst", remoteexecution.DigestFunction_SHA256)
	commandDigest  = &remoteexecution.Digest{Hash: "cccccccccccccccc11111111111111111111111111111111cccccccccccccccc", SizeBytes: 10}
	inputDigest    = &remoteexecution.Digest{Hash: "dddddddddddddddd11111111111111111111111111111111dddddddddddddddd", SizeBytes: 0}
	emptyDigest    = digest.MustNewDigest("inst", remoteexecution.DigestFunction_SHA256, "e3b0c44298fc1c149afbf4c8996fb92427ae41e4649b934ca495991b7852b855", 0)
)

// execOp is one call of an executor thread: Execute of an action (d == nil:
// do_not_cache, may run in parallel) or CheckReadiness.
type execOp struct {
	d         *digest.Digest
	readiness bool
}

// Additional methods of the fake directory that only the executor needs.

func (d *fakeDir) InstallHooks(filePool pool.FilePool, errorLogger util.ErrorLogger) {}

func (d *fakeDir) MergeDirectoryContents(ctx context.Context, errorLogger util.ErrorLogger, digest digest.Digest, monitor access.UnreadDirectoryMonitor) error {
	t := d.w.cur()
	l := d.label("Merge")
	d.w.use(t, l)
	if d.w.fault(t, l, d.n.name, 256) {
		return status.Error(codes.Unavailable, "input root cannot be fetched")
	}
	return nil
}

func (d *fakeDir) UploadFile(ctx context.Context, name path.Component, digestFunction digest.Function, writableFileUploadDelay <-chan struct{}) (digest.Digest, error) {
	t := d.w.cur()
	l := d.label("UploadFile")
	d.w.use(t, l)
	if d.w.fault(t, l, name.String(), 512) {
		return digest.BadDigest, status.Error(codes.Unavailable, "CAS is down")
	}
	return emptyDigest, nil
}

func (d *fakeDir) EnterUploadableDirectory(name path.Component) (builder.UploadableDirectory, error) {
	return d.EnterBuildDirectory(name)
}

func (d *fakeDir) EnterParentPopulatableDirectory(name path.Component) (builder.ParentPopulatableDirectory, error) {
	return d.EnterBuildDirectory(name)
}

// execCAS serves the Command message of the actions.
type execCAS struct {
	blobstore.BlobAccess
	w *world
}

func (c *execCAS) Get(ctx context.Context, d digest.Digest) buffer.Buffer {
	t := c.w.cur()
	c.w.use(t, "cas.Get")
	if c.w.fault(t, "cas.Get", "", 1024) {
		return buffer.NewBufferFromError(status.Error(codes.Unavailable, "CAS is down"))
	}
	return buffer.NewProtoBufferFromProto(&remoteexecution.Command{Arguments: []string{"true"}}, buffer.UserProvided)
}

func (c *execCAS) GetFromComposite(ctx context.Context, parentDigest, childDigest digest.Digest, slicer slicing.BlobSlicer) buffer.Buffer {
	panic("harness: GetFromComposite is not expected")
}

// execRunnerClient is the connection to bb_runner (a separate process with
// its own cleaning): the command runs inside the action's build directory.
type execRunnerClient struct{ w *world }

func (r *execRunnerClient) Run(ctx context.Context, in *runner_pb.RunRequest, opts ...grpc.CallOption) (*runner_pb.RunResponse, error) {
	t := r.w.cur()
	r.w.use(t, "runner.Run")
	if r.w.fault(t, "runner.Run", "", 64) {
		return nil, status.Error(codes.Unavailable, "connection to the runner was lost")
	}
	return &runner_pb.RunResponse{}, nil
}

func (r *execRunnerClient) CheckReadiness(ctx context.Context, in *runner_pb.CheckReadinessRequest, opts ...grpc.CallOption) (*emptypb.Empty, error) {
	t := r.w.cur()
	r.w.use(t, "runner.CheckReadiness")
	if r.w.fault(t, "runner.CheckReadiness", "", 64) {
		return nil, status.Error(codes.Unavailable, "connection to the runner was lost")
	}
	return &emptypb.Empty{}, nil
}

// execClock: timeouts never expire by themselves.
type execClock struct{ clock.Clock }

func (execClock) Now() time.Time { return time.Unix(1000, 0) }

func (execClock) NewContextWithTimeout(parent context.Context, timeout time.Duration) (context.Context, context.CancelFunc) {
	return context.WithCancel(parent)
}

func newExecutor(w *world, creator builder.BuildDirectoryCreator) builder.BuildExecutor {
	return builder.NewLocalBuildExecutor(&execCAS{w: w}, creator, &execRunnerClient{w: w}, execClock{}, time.Minute, nil, 1<<20, map[string]string{"PATH": "/bin"}, false)
}

// execThread: every call is ONE outer call for the monitor (phase "acquire":
// the pre-cleaning, the action's operations and the busy->idle cleaning all
// happen inside it). When it has returned - whatever its outcome - the
// action's directory is gone, the thread is no user any more (if it was the
// last one the busy->idle cleaner call has happened), and no lock is held.
func (w *world) execThread(t *thread, be builder.BuildExecutor, script []execOp) {
	x := w.x
	for i, op := range script {
		w.setPos(t, i)
		x.ResetLocal(fmt.Sprintf("%s#%d", t.name, i))
		w.beginCall(t, "acquire")
		var code codes.Code
		var message, call string
		if op.readiness {
			call = "CheckReadiness"
			err := be.CheckReadiness(t.ctx)
			code, message = status.Code(err), fmt.Sprint(err)
		} else {
			call = "Execute"
			updates := make(chan *remoteworker.CurrentState_Executing, 16)
			actionDigest := &remoteexecution.Digest{Hash: digestA.GetHashString(), SizeBytes: 123}
			response := be.Execute(t.ctx, nil, nil, sha256Function, &remoteworker.DesiredState_Executing{
				ActionDigest: actionDigest,
				Action: &remoteexecution.Action{
					CommandDigest:   commandDigest,
					InputRootDigest: inputDigest,
					Timeout:         durationpb.New(time.Hour),
					DoNotCache:      op.d == nil,
				},
			}, updates)
			if response == nil {
				w.fail("exec/no-response", "Execute of %s returned no response", t.name)
				return
			}
			code, message = codes.Code(response.Status.GetCode()), response.Status.GetMessage()
		}
		w.endCall(t, call, false, true)
		x.CheckNoLocksHeld("localBuildExecutor." + call)
		x.Logf("%s: %s -> %v %s", t.name, call, code, message)
		w.checkGone(t, call)
		if code != codes.OK {
			w.checkFailureJustified(t, action{op.d}, fmt.Errorf("%s: %v %s", call, code, message))
		}
		x.Outcome("%s#%d=%v", t.name, i, code)
	}
	w.finishThread(t)
}
