package sizeclass

// C07(b): well-formedness of every size-class choice.
//
// Engine B (mc.Seq) on the REAL feedbackDrivenAnalyzer, selectors, learners,
// pageRankStrategyCalculator, smallestSizeClassStrategyCalculator,
// fallbackAnalyzer, Outcomes and ActionTimeoutExtractor. The only fakes are a
// sequential in-memory MutableProtoStore, a clock and an RNG whose value is
// chosen by the operation.

import (
	"context"
	"fmt"
	"math"
	"runtime"
	"sort"
	"strconv"
	"strings"
	"sync/atomic"
	"time"

	"verif/mc"

	remoteexecution "github.com/bazelbuild/remote-apis/build/bazel/remote/execution/v2"
	re_blobstore "github.com/buildbarn/bb-remote-execution/pkg/blobstore"
	"github.com/buildbarn/bb-remote-execution/pkg/scheduler/initialsizeclass"
	"github.com/buildbarn/bb-storage/pkg/digest"
	"github.com/buildbarn/bb-storage/pkg/proto/iscc"
	"google.golang.org/grpc/codes"
	"google.golang.org/grpc/status"
	"google.golang.org/protobuf/proto"
	"google.golang.org/protobuf/types/known/durationpb"
	"google.golang.org/protobuf/types/known/emptypb"
	"google.golang.org/protobuf/types/known/timestamppb"
)

const (
	prop = "C07"
	// Tolerance of the probability oracles (floating point noise of the
	// power iteration); given by the check's specification.
	eps = 1e-9

	defaultExecutionTimeout = 1800 * time.Second
	maximumExecutionTimeout = 3600 * time.Second
	failureCacheDuration    = time.Hour
	historySize             = 3

	// PageRank parameters: the values recommended in scheduler.proto.
	prMinimumExecutionTimeout = 10 * time.Second
	prExponent                = 0.7
	prTimeoutMultiplier       = 1.5
	prMaximumConvergenceError = 0.002

	// A power iteration that has not finished after this much real time
	// (it normally takes microseconds) is reported as non-terminating.
	// This is the only way to turn an endless loop inside the real code
	// into a verdict; it is a cap, not a performance oracle.
	nonTerminationCap = 20 * time.Second
)

var (
	digestFunction = digest.MustNewFunction("", remoteexecution.DigestFunction_SHA256)
	commandDigest  = &remoteexecution.Digest{Hash: "e3b0c44298fc1c149afbf4c8996fb92427ae41e4649b934ca495991b7852b855", SizeBytes: 0}
	epoch          = time.Unix(1_000_000_000, 0)

	allLists = [][]uint32{{1}, {1, 2}, {1, 2, 4}, {1, 2, 4, 8}}
	// For the exploration in which size classes come and go: also a list
	// from which the smallest size class has disappeared.
	changingLists = [][]uint32{{1}, {1, 2}, {1, 2, 4}, {1, 2, 4, 8}, {2, 4}}
)

// ---------------------------------------------------------------------------
// Fakes

type seqClock struct{ now time.Time }

func (c *seqClock) Now() time.Time { return c.now }

// fixedRNG is a random.SingleThreadedGenerator whose Float64 is set by the
// operation being applied.
type fixedRNG struct{ next float64 }

func (r *fixedRNG) Float64() float64                   { return r.next }
func (r *fixedRNG) Int64N(n int64) int64               { panic("unexpected Int64N") }
func (r *fixedRNG) IntN(n int) int                     { panic("unexpected IntN") }
func (r *fixedRNG) Read(p []byte) (int, error)         { panic("unexpected Read") }
func (r *fixedRNG) Shuffle(n int, swap func(i, j int)) { panic("unexpected Shuffle") }
func (r *fixedRNG) Uint32() uint32                     { panic("unexpected Uint32") }
func (r *fixedRNG) Uint64() uint64                     { panic("unexpected Uint64") }

// seqStore is a sequential MutableProtoStore for one digest: Get hands out
// a copy of the persisted message, Release(true) persists it, Release(false)
// discards it (what the real store does when a single user holds a handle).
type seqStore struct {
	persisted  *iscc.PreviousExecutionStats
	current    *seqHandle
	unreleased int
	problems   []string
	failGet    bool
}

type seqHandle struct {
	st       *seqStore
	msg      *iscc.PreviousExecutionStats
	atGet    string
	released int
}

func (st *seqStore) Get(ctx context.Context, d digest.Digest) (re_blobstore.MutableProtoHandle[*iscc.PreviousExecutionStats], error) {
	if st.failGet {
		return nil, status.Error(codes.Unavailable, "ISCC unavailable")
	}
	h := &seqHandle{st: st, msg: &iscc.PreviousExecutionStats{}}
	if st.persisted != nil {
		h.msg = proto.Clone(st.persisted).(*iscc.PreviousExecutionStats)
	}
	h.atGet = recordedStats(h.msg)
	st.current = h
	st.unreleased++
	return h, nil
}

func (h *seqHandle) GetMutableProto() *iscc.PreviousExecutionStats { return h.msg }

func (h *seqHandle) Release(isDirty bool) {
	h.released++
	if h.released > 1 {
		h.st.problems = append(h.st.problems, "handle-released-twice")
		return
	}
	h.st.unreleased--
	if isDirty {
		h.st.persisted = proto.Clone(h.msg).(*iscc.PreviousExecutionStats)
	} else if now := recordedStats(h.msg); now != h.atGet {
		h.st.problems = append(h.st.problems, "recorded-stats-released-clean")
	}
}

// ---------------------------------------------------------------------------
// Canonical renderings

func renderExecution(pe *iscc.PreviousExecution) string {
	switch o := pe.GetOutcome().(type) {
	case *iscc.PreviousExecution_Failed:
		return "F"
	case *iscc.PreviousExecution_TimedOut:
		if o.TimedOut == nil {
			return "T(nil)"
		}
		return "T(" + o.TimedOut.AsDuration().String() + ")"
	case *iscc.PreviousExecution_Succeeded:
		if o.Succeeded == nil {
			return "S(nil)"
		}
		return "S(" + o.Succeeded.AsDuration().String() + ")"
	}
	return "none"
}

func sortedClasses(m map[uint32]*iscc.PerSizeClassStats) []uint32 {
	ks := make([]uint32, 0, len(m))
	for k := range m {
		ks = append(ks, k)
	}
	sort.Slice(ks, func(i, j int) bool { return ks[i] < ks[j] })
	return ks
}

// recordedStats renders the part of a message that learners record: the
// previous executions and the time of the last failure. (Probabilities and
// empty per-size-class entries are caches written by GetStrategies.)
func recordedStats(m *iscc.PreviousExecutionStats) string {
	var b strings.Builder
	for _, k := range sortedClasses(m.GetSizeClasses()) {
		pes := m.SizeClasses[k].GetPreviousExecutions()
		if len(pes) == 0 {
			continue
		}
		fmt.Fprintf(&b, "%d:", k)
		for _, pe := range pes {
			b.WriteString(renderExecution(pe))
			b.WriteByte(',')
		}
		b.WriteByte(';')
	}
	if ts := m.GetLastSeenFailure(); ts != nil {
		fmt.Fprintf(&b, "lsf=%d.%d", ts.Seconds, ts.Nanos)
	}
	return b.String()
}

// fullStats renders everything that influences the analyzer's behaviour;
// the last failure time only matters relative to the clock.
func fullStats(m *iscc.PreviousExecutionStats, now time.Time) string {
	if m == nil {
		return "absent"
	}
	var b strings.Builder
	for _, k := range sortedClasses(m.GetSizeClasses()) {
		v := m.SizeClasses[k]
		fmt.Fprintf(&b, "%d:", k)
		for _, pe := range v.GetPreviousExecutions() {
			b.WriteString(renderExecution(pe))
			b.WriteByte(',')
		}
		b.WriteString("p=")
		b.WriteString(strconv.FormatFloat(v.GetInitialPageRankProbability(), 'g', -1, 64))
		b.WriteByte(';')
	}
	b.WriteString("lsf=")
	b.WriteString(failureState(m, now))
	return b.String()
}

func failureState(m *iscc.PreviousExecutionStats, now time.Time) string {
	ts := m.GetLastSeenFailure()
	switch {
	case ts == nil:
		return "none"
	case ts.CheckValid() != nil:
		return "invalid"
	case ts.AsTime().Before(now.Add(-failureCacheDuration)):
		return "expired"
	}
	return "cached"
}

// ---------------------------------------------------------------------------
// Configuration and state

type timeoutChoice struct {
	name string
	pb   *durationpb.Duration
	own  time.Duration // the action's own timeout (the default if unset)
}

var validTimeouts = []timeoutChoice{
	{"60s", durationpb.New(60 * time.Second), 60 * time.Second},
	{"5s", durationpb.New(5 * time.Second), 5 * time.Second},
	{"unset", nil, defaultExecutionTimeout},
	{"0s", durationpb.New(0), 0},
	{"3600s", durationpb.New(3600 * time.Second), 3600 * time.Second},
}

// Timeouts that the extractor is expected to reject; if it does not, the
// choice still has to be well formed with respect to the action's own value.
var hostileTimeouts = []timeoutChoice{
	{"-1s", durationpb.New(-time.Second), -time.Second},
	{"7200s", durationpb.New(7200 * time.Second), 7200 * time.Second},
	{"malformed", &durationpb.Duration{Seconds: 5, Nanos: -7}, 5 * time.Second},
}

type wfConfig struct {
	name     string
	analyzer string // "pagerank", "smallest", "fallback"
	lists    [][]uint32
	timeouts []timeoutChoice
	depth    map[string]int
	// firstList is the index of the size-class list in force initially.
	firstList int
}

type wfState struct {
	cfg   *wfConfig
	c     *mc.SeqCtx
	store *seqStore
	clock *seqClock
	rng   *fixedRNG
	an    initialsizeclass.Analyzer

	fresh   bool
	listIdx int
	toIdx   int
	learner initialsizeclass.Learner
	// chain renders everything that determines the private fields of the
	// outstanding learner: the Select call that created the first learner
	// and the calls made since.
	chain string
	own   time.Duration // own timeout of the action being executed
	// running is the size class on which the action is executing while a
	// learner is outstanding: the scheduler cannot lose that size class
	// before the execution has ended, but all others may come and go.
	running uint32
}

func (s *wfState) list() []uint32 { return s.cfg.lists[s.listIdx] }

func (s *wfState) fail(fingerprint, format string, args ...any) {
	s.c.FailP(prop, fingerprint, format, args...)
}

// ---------------------------------------------------------------------------
// Oracle on strategy lists: a decorator around the real calculator.

type checkingCalculator struct {
	inner initialsizeclass.StrategyCalculator
	s     *wfState
}

// nonTerminating is set once a call into the code under test exceeded the
// cap; it only shortens the end of a run that has found a violation.
var nonTerminating atomic.Bool

// located is a panic value together with the function of the code under test
// that raised it.
type located struct {
	value any
	where string
	stack string
}

// locate finds the innermost frame of the code under test on the stack of a
// panicking goroutine (to be called from a deferred function).
func locate(r any) located {
	if l, ok := r.(located); ok {
		return l
	}
	l := located{value: r, where: "?"}
	buf := make([]byte, 8192)
	l.stack = string(buf[:runtime.Stack(buf, false)])
	var pcs [48]uintptr
	frames := runtime.CallersFrames(pcs[:runtime.Callers(2, pcs[:])])
	for {
		f, more := frames.Next()
		if i := strings.Index(f.Function, "/initialsizeclass."); i >= 0 {
			l.where = f.Function[i+len("/initialsizeclass."):]
			break
		}
		if !more {
			break
		}
	}
	return l
}

// guarded runs one call into the analyzer and turns a panic into a violation
// whose fingerprint names the call and the panicking function.
func (s *wfState) guarded(call string, fn func()) {
	defer func() {
		if r := recover(); r != nil {
			l := locate(r)
			s.fail("wf/panic/"+call+"/"+l.where, "%s panicked in %s: %v; size classes %v; history: %s; stats of the handle: %s\n%s", call, l.where, l.value, s.list(), s.chain, s.handleStats(), l.stack)
			panic(r)
		}
	}()
	fn()
}

// watch runs fn on a separate goroutine so that an endless loop in the real
// code becomes a violation instead of a hung worker.
func (s *wfState) watch(what string, fn func()) {
	if nonTerminating.Load() {
		// Another instance already found the endless loop: do not wait
		// for the cap again (the exploration is about to end).
		s.fail("wf/nontermination/"+what, "%s does not terminate (found on another operation sequence of this run)", what)
		panic("non-terminating " + what)
	}
	done := make(chan any, 1)
	go func() {
		defer func() {
			if r := recover(); r != nil {
				done <- locate(r)
			} else {
				done <- nil
			}
		}()
		fn()
	}()
	t := time.NewTimer(nonTerminationCap)
	defer t.Stop()
	select {
	case r := <-done:
		if r != nil {
			panic(r)
		}
	case <-t.C:
		nonTerminating.Store(true)
		s.fail("wf/nontermination/"+what, "%s did not return within %s (power iteration does not converge); stats of the handle: %s; size classes %v", what, nonTerminationCap, s.handleStats(), s.list())
		// The goroutine cannot be stopped; the exploration ends with
		// this violation.
		panic("non-terminating " + what)
	}
}

func (cc *checkingCalculator) GetStrategies(m map[uint32]*iscc.PerSizeClassStats, sizeClasses []uint32, originalTimeout time.Duration) []initialsizeclass.Strategy {
	var strategies []initialsizeclass.Strategy
	cc.s.watch("GetStrategies", func() { strategies = cc.inner.GetStrategies(m, sizeClasses, originalTimeout) })
	s := cc.s
	if len(strategies) > len(sizeClasses) {
		s.fail("wf/strategies/more-strategies-than-size-classes", "GetStrategies(%v) returned %d strategies: %+v", sizeClasses, len(strategies), strategies)
	}
	sum := 0.0
	for i, st := range strategies {
		p := st.Probability
		if math.IsNaN(p) || p < -eps || p > 1+eps {
			s.fail("wf/strategies/probability-out-of-range", "GetStrategies(%v, timeout %s): probability of strategy %d is %v: %+v", sizeClasses, originalTimeout, i, p, strategies)
		}
		sum += p
		if p > 0 && !st.RunInBackground && (st.ForegroundExecutionTimeout < 0 || st.ForegroundExecutionTimeout > originalTimeout) {
			s.fail("wf/strategies/foreground-timeout-out-of-range", "GetStrategies(%v, timeout %s): strategy %d has foreground timeout %s: %+v", sizeClasses, originalTimeout, i, st.ForegroundExecutionTimeout, strategies)
		}
	}
	if sum > 1+eps {
		s.fail("wf/strategies/sum-exceeds-one", "GetStrategies(%v, timeout %s): probabilities sum to %v: %+v", sizeClasses, originalTimeout, sum, strategies)
	}
	return strategies
}

func (cc *checkingCalculator) GetBackgroundExecutionTimeout(m map[uint32]*iscc.PerSizeClassStats, sizeClasses []uint32, sizeClassIndex int, originalTimeout time.Duration) time.Duration {
	t := cc.inner.GetBackgroundExecutionTimeout(m, sizeClasses, sizeClassIndex, originalTimeout)
	if t < 0 || t > originalTimeout {
		cc.s.fail("wf/strategies/background-timeout-out-of-range", "GetBackgroundExecutionTimeout(%v, index %d, timeout %s) = %s", sizeClasses, sizeClassIndex, originalTimeout, t)
	}
	return t
}

// ---------------------------------------------------------------------------
// Seeds: stored messages the exploration starts from (besides "absent").

func succ(d time.Duration) *iscc.PreviousExecution {
	return &iscc.PreviousExecution{Outcome: &iscc.PreviousExecution_Succeeded{Succeeded: durationpb.New(d)}}
}

func timedOut(d time.Duration) *iscc.PreviousExecution {
	return &iscc.PreviousExecution{Outcome: &iscc.PreviousExecution_TimedOut{TimedOut: durationpb.New(d)}}
}

func failed() *iscc.PreviousExecution {
	return &iscc.PreviousExecution{Outcome: &iscc.PreviousExecution_Failed{Failed: &emptypb.Empty{}}}
}

func class(p float64, pes ...*iscc.PreviousExecution) *iscc.PerSizeClassStats {
	return &iscc.PerSizeClassStats{PreviousExecutions: pes, InitialPageRankProbability: p}
}

type seed struct {
	name string
	msg  func() *iscc.PreviousExecutionStats
}

const sec = time.Second

var seeds = []seed{
	{"history-overflow", func() *iscc.PreviousExecutionStats {
		// More previous executions than the history size, on every class.
		return &iscc.PreviousExecutionStats{SizeClasses: map[uint32]*iscc.PerSizeClassStats{
			1: class(0.1, failed(), succ(1*sec), timedOut(10*sec), succ(10*sec), succ(100*sec), failed()),
			2: class(0.2, succ(10*sec), succ(10*sec), failed(), failed(), succ(1*sec)),
			4: class(0.3, succ(10*sec), succ(1*sec), succ(100*sec), succ(10*sec)),
			8: class(0.4, succ(10*sec), succ(1*sec), succ(100*sec), succ(10*sec), succ(10*sec)),
		}}
	}},
	{"unknown-classes", func() *iscc.PreviousExecutionStats {
		// Written under another set of size classes.
		return &iscc.PreviousExecutionStats{SizeClasses: map[uint32]*iscc.PerSizeClassStats{
			1:  class(0.4, succ(10*sec)),
			3:  class(0.7, succ(1*sec), failed()),
			16: class(0.9, succ(10*sec), succ(10*sec)),
			8:  class(0.6, succ(10*sec)),
			4:  class(0.6, succ(100*sec)),
			2:  class(0.6, timedOut(15*sec)),
		}}
	}},
	{"probabilities-out-of-range", func() *iscc.PreviousExecutionStats {
		return &iscc.PreviousExecutionStats{SizeClasses: map[uint32]*iscc.PerSizeClassStats{
			1: class(-0.5, succ(10*sec)),
			2: class(2.0, succ(10*sec), failed()),
			4: class(1.0, succ(1*sec)),
			8: class(math.NaN(), succ(10*sec)),
		}}
	}},
	{"probabilities-sum-above-one", func() *iscc.PreviousExecutionStats {
		return &iscc.PreviousExecutionStats{SizeClasses: map[uint32]*iscc.PerSizeClassStats{
			1: class(0.95, succ(100*sec), failed()),
			2: class(0.95, succ(10*sec)),
			4: class(0.95, succ(10*sec)),
			8: class(0.95, succ(1*sec)),
		}}
	}},
	{"probabilities-infinite", func() *iscc.PreviousExecutionStats {
		return &iscc.PreviousExecutionStats{SizeClasses: map[uint32]*iscc.PerSizeClassStats{
			1: class(math.Inf(1), succ(10*sec)),
			2: class(math.Inf(-1), succ(10*sec)),
			4: class(1e300, succ(10*sec)),
			8: class(5e-324, succ(10*sec)),
		}}
	}},
	{"missing-outcomes", func() *iscc.PreviousExecutionStats {
		return &iscc.PreviousExecutionStats{SizeClasses: map[uint32]*iscc.PerSizeClassStats{
			1: class(0, &iscc.PreviousExecution{}, succ(10*sec)),
			2: class(0, &iscc.PreviousExecution{Outcome: &iscc.PreviousExecution_Succeeded{}}),
			4: class(0, &iscc.PreviousExecution{Outcome: &iscc.PreviousExecution_TimedOut{}}, succ(10*sec)),
			8: class(0, &iscc.PreviousExecution{Outcome: &iscc.PreviousExecution_Failed{}}, succ(10*sec)),
		}}
	}},
	{"recent-failure", func() *iscc.PreviousExecutionStats {
		return &iscc.PreviousExecutionStats{
			SizeClasses: map[uint32]*iscc.PerSizeClassStats{
				1: class(0.5, failed()),
				2: class(0.2, succ(10*sec)),
				4: class(0.2, succ(10*sec)),
				8: class(0.1, succ(10*sec)),
			},
			LastSeenFailure: timestamppb.New(epoch),
		}
	}},
	{"invalid-failure-time", func() *iscc.PreviousExecutionStats {
		return &iscc.PreviousExecutionStats{
			SizeClasses: map[uint32]*iscc.PerSizeClassStats{
				1: class(0.5, succ(100*sec)),
				8: class(0.1, succ(10*sec)),
			},
			LastSeenFailure: &timestamppb.Timestamp{Seconds: 5, Nanos: -3},
		}
	}},
	{"failing-on-smaller", func() *iscc.PreviousExecutionStats {
		// Fast on the larger classes, failing on the smallest: leads to
		// background learning and to the minimum execution timeout.
		return &iscc.PreviousExecutionStats{SizeClasses: map[uint32]*iscc.PerSizeClassStats{
			1: class(0.1, failed(), failed(), timedOut(100*sec)),
			2: class(0.3, succ(1*sec)),
			4: class(0.3, succ(1*sec)),
			8: class(0.3, succ(1*sec)),
		}}
	}},
	{"hostile-durations", func() *iscc.PreviousExecutionStats {
		return &iscc.PreviousExecutionStats{SizeClasses: map[uint32]*iscc.PerSizeClassStats{
			1: class(0.25, succ(-5*sec), succ(0)),
			2: class(0.25, succ(100000*sec), timedOut(-1*sec)),
			4: class(0.25, succ(-1*sec)),
			8: class(0.25, succ(-1*sec), succ(1000000*sec)),
		}}
	}},
}

// ---------------------------------------------------------------------------
// The Seq

func (cfg *wfConfig) newState(c *mc.SeqCtx) any {
	s := &wfState{cfg: cfg, c: c, store: &seqStore{}, clock: &seqClock{now: epoch}, rng: &fixedRNG{}, fresh: true, listIdx: cfg.firstList}
	extractor := initialsizeclass.NewActionTimeoutExtractor(defaultExecutionTimeout, maximumExecutionTimeout)
	switch cfg.analyzer {
	case "pagerank":
		calc := &checkingCalculator{inner: initialsizeclass.NewPageRankStrategyCalculator(prMinimumExecutionTimeout, prExponent, prTimeoutMultiplier, prMaximumConvergenceError), s: s}
		s.an = initialsizeclass.NewFeedbackDrivenAnalyzer(s.store, s.rng, fullClock{s.clock}, extractor, failureCacheDuration, calc, historySize)
	case "smallest":
		calc := &checkingCalculator{inner: initialsizeclass.SmallestSizeClassStrategyCalculator, s: s}
		s.an = initialsizeclass.NewFeedbackDrivenAnalyzer(s.store, s.rng, fullClock{s.clock}, extractor, failureCacheDuration, calc, historySize)
	case "fallback":
		s.an = initialsizeclass.NewFallbackAnalyzer(extractor)
	default:
		panic("unknown analyzer " + cfg.analyzer)
	}
	return s
}

func (s *wfState) checkChoice(call string, idx int, nClasses int, timeout time.Duration) {
	if idx < 0 || idx >= nClasses {
		s.fail("wf/"+call+"/index-out-of-range", "%s returned size class index %d, but there are %d size classes %v; history: %s", call, idx, nClasses, s.list(), s.chain)
	}
	s.checkTimeout(call, timeout)
}

func (s *wfState) checkTimeout(call string, timeout time.Duration) {
	if timeout < 0 || timeout > s.own {
		s.fail("wf/"+call+"/timeout-out-of-range", "%s returned timeout %s, the action's own timeout is %s; history: %s", call, timeout, s.own, s.chain)
	}
}

func (s *wfState) doSelect(tc timeoutChoice, r float64, abandon bool) {
	s.fresh = false
	s.rng.next = r
	action := &remoteexecution.Action{CommandDigest: commandDigest, Timeout: tc.pb}
	var selector initialsizeclass.Selector
	var err error
	s.guarded("Analyze", func() { selector, err = s.an.Analyze(context.Background(), digestFunction, action) })
	if err != nil {
		s.c.Logf("Analyze(timeout %s) = %v", tc.name, err)
		return
	}
	if abandon {
		s.guarded("Selector.Abandoned", selector.Abandoned)
		s.c.Logf("Analyze(timeout %s); selector.Abandoned()", tc.name)
		return
	}
	s.own = tc.own
	list := s.list()
	s.chain = fmt.Sprintf("Select(%v, own=%s)", list, tc.name)
	var idx int
	var expected, timeout time.Duration
	var learner initialsizeclass.Learner
	s.guarded("Select", func() { idx, expected, timeout, learner = selector.Select(list) })
	if s.c.Verbose() {
		s.c.Logf("Select(%v) with r=%v, own timeout %s -> index %d, expected %s, timeout %s, learner %T; stats now %s", list, r, tc.name, idx, expected, timeout, learner, s.handleStats())
	}
	s.checkChoice("Select", idx, len(list), timeout)
	s.chain += fmt.Sprintf("=(%d,%s,%T)", idx, timeout, learner)
	s.setLearner(learner, list, idx)
}

// setLearner records the outstanding learner and the size class on which
// the action is now executing (0 if none or unknown).
func (s *wfState) setLearner(l initialsizeclass.Learner, list []uint32, idx int) {
	s.learner = l
	s.running = 0
	if l != nil && idx >= 0 && idx < len(list) {
		s.running = list[idx]
	}
}

func contains(list []uint32, v uint32) bool {
	for _, e := range list {
		if e == v {
			return true
		}
	}
	return false
}

func (s *wfState) handleStats() string {
	if s.store.current == nil {
		return "-"
	}
	return fullStats(s.store.current.msg, s.clock.now)
}

// historySnapshot renders the previous executions per size class of the
// message behind the outstanding learner's handle.
func (s *wfState) historySnapshot() map[uint32][]string {
	r := map[uint32][]string{}
	if s.store.current == nil {
		return r
	}
	for k, v := range s.store.current.msg.GetSizeClasses() {
		var l []string
		for _, pe := range v.GetPreviousExecutions() {
			l = append(l, renderExecution(pe))
		}
		r[k] = l
	}
	return r
}

func lastN(l []string, n int) []string {
	if len(l) > n {
		return l[len(l)-n:]
	}
	return l
}

// checkHistory: "a later update is never ... dropped in favour of an earlier
// one". A terminal call of a learner records at most ONE new outcome per size
// class; so for every size class the list in the message that is written to
// the ISCC is either untouched, or the previous list plus the new outcome AT
// THE END, cut to the last historySize entries (the OLDEST are the ones that
// go). wantLast (if non-empty): the outcome this very call reports; if the
// call updated any size class, it is the newest entry of one of them.
func (s *wfState) checkHistory(call, chain string, before map[uint32][]string, wantClass uint32, wantLast string) {
	if s.cfg.analyzer == "fallback" || s.store.current == nil {
		return
	}
	after := s.historySnapshot()
	var updated []string
	found := false
	_ = wantClass
	seen := map[uint32]bool{}
	var classes []uint32
	for k := range before {
		seen[k] = true
		classes = append(classes, k)
	}
	for k := range after {
		if !seen[k] {
			classes = append(classes, k)
		}
	}
	sort.Slice(classes, func(i, j int) bool { return classes[i] < classes[j] })
	for _, k := range classes {
		b, a := before[k], after[k]
		if strings.Join(a, ",") == strings.Join(b, ",") {
			continue
		}
		if len(a) == 0 {
			s.fail("wf/history/"+call+"/dropped", "%s: the recorded executions %v of size class %d disappeared; history: %s", call, b, k, chain)
			return
		}
		// One new outcome per EXECUTION of the action: one, or two when the
		// call closes a chain with a failed first attempt and a retry (both
		// may be attributed to the same size class if the set of size
		// classes changed in between).
		maxNew := 1
		if strings.Contains(chain, ";Failed(") {
			maxNew = 2
		}
		ok := false
		for k := 1; k <= maxNew && k <= len(a); k++ {
			want := lastN(append(append([]string(nil), b...), a[len(a)-k:]...), historySize)
			if strings.Join(a, ",") == strings.Join(want, ",") {
				ok = true
			}
		}
		if !ok {
			s.fail("wf/history/"+call+"/not-previous-plus-newest", "%s: previous executions of size class %d were %v and are now %v: not the previous list plus the (at most %d) new outcome(s) at the end cut to the last %d (an older sample was kept in favour of a newer one); history: %s", call, k, b, a, maxNew, historySize, chain)
			return
		}
		updated = append(updated, fmt.Sprintf("%d:%v->%v", k, b, a))
	}
	// (Equal renderings hide an update: look at every class.)
	for _, a := range after {
		if len(a) > 0 && a[len(a)-1] == wantLast {
			found = true
		}
	}
	// (Which size class the learner attributes the outcome to is its own
	// business - the list of size classes may have changed since Select.)
	if wantLast != "" && len(updated) > 0 && !found {
		s.fail("wf/history/"+call+"/newest-is-not-this-outcome", "%s reported %s, but that is not the newest recorded execution of any size class it updated (%v); history: %s", call, wantLast, updated, chain)
	}
}

func (s *wfState) doSucceeded(d time.Duration) {
	list := s.list()
	hist, ranOn := s.historySnapshot(), s.running
	s.chain += fmt.Sprintf(";Succeeded(%s,%v)", d, list)
	chain := s.chain
	defer func() { s.checkHistory("Succeeded", chain, hist, ranOn, "S("+d.String()+")") }()
	var idx int
	var expected, timeout time.Duration
	var learner initialsizeclass.Learner
	s.guarded("Succeeded", func() { idx, expected, timeout, learner = s.learner.Succeeded(d, list) })
	if s.c.Verbose() {
		s.c.Logf("Succeeded(%s, %v) -> index %d, expected %s, timeout %s, learner %T; stats now %s", d, list, idx, expected, timeout, learner, s.handleStats())
	}
	if learner != nil {
		s.checkChoice("Succeeded", idx, len(list), timeout)
		s.chain += fmt.Sprintf("=(%d,%s,%T)", idx, timeout, learner)
	} else {
		s.chain = ""
	}
	s.setLearner(learner, list, idx)
}

func (s *wfState) doFailed(timedOut bool) {
	hist := s.historySnapshot()
	s.chain += fmt.Sprintf(";Failed(%v)", timedOut)
	chain := s.chain
	defer func() { s.checkHistory("Failed", chain, hist, 0, "") }()
	var expected, timeout time.Duration
	var learner initialsizeclass.Learner
	s.guarded("Failed", func() { expected, timeout, learner = s.learner.Failed(timedOut) })
	if s.c.Verbose() {
		s.c.Logf("Failed(%v) -> expected %s, timeout %s, learner %T; stats now %s", timedOut, expected, timeout, learner, s.handleStats())
	}
	if learner != nil {
		s.checkTimeout("Failed", timeout)
		s.chain += fmt.Sprintf("=(%s,%T)", timeout, learner)
	} else {
		s.chain = ""
	}
	// A retry after a failure runs on the largest size class.
	list := s.list()
	s.setLearner(learner, list, len(list)-1)
}

func (s *wfState) doAbandoned() {
	hist := s.historySnapshot()
	defer s.checkHistory("Abandoned", s.chain+";Abandoned", hist, 0, "")
	s.guarded("Abandoned", s.learner.Abandoned)
	if s.c.Verbose() {
		s.c.Logf("Abandoned(); persisted stats %s", fullStats(s.store.persisted, s.clock.now))
	}
	s.learner = nil
	s.chain = ""
}

func wfSeq(cfg *wfConfig) *mc.Seq {
	idle := func(a any) bool { return a.(*wfState).learner == nil }
	busy := func(a any) bool { return a.(*wfState).learner != nil }
	var ops []mc.SeqOp
	op := func(name string, enabled func(a any) bool, do func(s *wfState)) {
		ops = append(ops, mc.SeqOp{Name: name, Enabled: enabled, Do: func(c *mc.SeqCtx, a any) {
			s := a.(*wfState)
			s.c = c
			do(s)
		}})
	}
	for _, r := range []float64{0, 0.25, 0.5, 0.75, 0.999} {
		r := r
		op(fmt.Sprintf("select r=%v", r), idle, func(s *wfState) { s.doSelect(s.cfg.timeouts[s.toIdx], r, false) })
	}
	for _, d := range []time.Duration{1 * sec, 10 * sec, 100 * sec} {
		d := d
		op(fmt.Sprintf("succeeded %s", d), busy, func(s *wfState) { s.doSucceeded(d) })
	}
	op("failed timeout", busy, func(s *wfState) { s.doFailed(true) })
	op("failed", busy, func(s *wfState) { s.doFailed(false) })
	op("abandoned", busy, func(s *wfState) { s.doAbandoned() })
	op("analyze, selector abandoned", idle, func(s *wfState) { s.doSelect(s.cfg.timeouts[s.toIdx], 0, true) })
	for _, tc := range hostileTimeouts {
		tc := tc
		op("select r=0.25 with action timeout "+tc.name, idle, func(s *wfState) { s.doSelect(tc, 0.25, false) })
	}
	if cfg.analyzer != "fallback" {
		op("clock += 2h", func(a any) bool {
			s := a.(*wfState)
			return s.learner == nil && failureState(s.store.persisted, s.clock.now) == "cached"
		}, func(s *wfState) {
			s.fresh = false
			s.clock.now = s.clock.now.Add(2 * failureCacheDuration)
		})
		op("analyze with unavailable ISCC", idle, func(s *wfState) {
			s.store.failGet = true
			s.doSelect(s.cfg.timeouts[s.toIdx], 0, false)
			s.store.failGet = false
		})
	}
	if len(cfg.timeouts) > 1 {
		for i, tc := range cfg.timeouts {
			i := i
			op("action timeout := "+tc.name, func(a any) bool {
				s := a.(*wfState)
				return s.learner == nil && s.toIdx != i
			}, func(s *wfState) { s.toIdx = i })
		}
	}
	if len(cfg.lists) > 1 {
		for i, l := range cfg.lists {
			i := i
			// Size classes may appear and disappear while an
			// action is executing.
			l := l
			op(fmt.Sprintf("size classes := %v", l), func(a any) bool {
				s := a.(*wfState)
				return s.listIdx != i && (s.learner == nil || contains(l, s.running))
			}, func(s *wfState) { s.listIdx = i })
		}
	}
	if cfg.analyzer != "fallback" {
		for _, sd := range seeds {
			sd := sd
			op("stored stats := "+sd.name, func(a any) bool { return a.(*wfState).fresh }, func(s *wfState) {
				s.fresh = false
				s.store.persisted = sd.msg()
			})
		}
	}
	return &mc.Seq{
		Name:   cfg.name,
		Props:  []string{prop},
		Panics: []string{prop},
		Depth:  cfg.depth,
		New:    cfg.newState,
		Ops:    ops,
		Key: func(a any) string {
			s := a.(*wfState)
			var b strings.Builder
			fmt.Fprintf(&b, "fresh=%v list=%d to=%d own=%s run=%d ", s.fresh, s.listIdx, s.toIdx, s.own, s.running)
			b.WriteString(fullStats(s.store.persisted, s.clock.now))
			if s.learner != nil {
				fmt.Fprintf(&b, " | %T %s | ", s.learner, s.chain)
				b.WriteString(s.handleStats())
			}
			return b.String()
		},
		Check: func(c *mc.SeqCtx, a any) {
			s := a.(*wfState)
			for _, p := range s.store.problems {
				c.FailP(prop, "wf/handle/"+p, "ISCC handle misuse by the analyzer: %s", p)
			}
			want := 0
			if s.learner != nil && s.cfg.analyzer != "fallback" {
				want = 1
			}
			if s.store.unreleased != want {
				c.FailP(prop, "wf/handle/unreleased-count", "%d ISCC handles are unreleased, expected %d (outstanding learner: %T)", s.store.unreleased, want, s.learner)
			}
		},
	}
}

func wfSeqs() []*mc.Seq {
	t60 := validTimeouts[:1]
	depth := func(quick, thorough int) map[string]int { return map[string]int{"quick": quick, "thorough": thorough} }
	cfgs := []*wfConfig{
		{name: "wf-pagerank-1", analyzer: "pagerank", lists: allLists[0:1], timeouts: validTimeouts, depth: depth(6, 9)},
		{name: "wf-pagerank-1-2", analyzer: "pagerank", lists: allLists[1:2], timeouts: validTimeouts, depth: depth(7, 9)},
		{name: "wf-pagerank-1-2-4", analyzer: "pagerank", lists: allLists[2:3], timeouts: validTimeouts, depth: depth(6, 8)},
		{name: "wf-pagerank-1-2-4-8", analyzer: "pagerank", lists: allLists[3:4], timeouts: validTimeouts, depth: depth(6, 8)},
		// Size classes appear and disappear while actions execute; starts with [1 2].
		{name: "wf-pagerank-changing-classes", analyzer: "pagerank", lists: changingLists, timeouts: t60, depth: depth(6, 8), firstList: 1},
		{name: "wf-smallest", analyzer: "smallest", lists: allLists, timeouts: validTimeouts, depth: depth(6, 8), firstList: 1},
		{name: "wf-fallback", analyzer: "fallback", lists: allLists, timeouts: validTimeouts, depth: depth(6, 9), firstList: 1},
	}
	var seqs []*mc.Seq
	for _, cfg := range cfgs {
		seqs = append(seqs, wfSeq(cfg))
	}
	return seqs
}
