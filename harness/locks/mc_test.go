package locks

import (
	"os"
	"testing"

	"verif/mc"

	"github.com/buildbarn/go-xdr/pkg/protocols/nfsv4"
)

var (
	points6 = []uint64{0, 1, 2, 3, maxOff - 1, maxOff}
	points5 = []uint64{0, 1, 2, maxOff - 1, maxOff}
	points4 = []uint64{0, 1, maxOff - 1, maxOff}
)

type ownerID string

func TestMC(t *testing.T) {
	// The instantiation of the NFS server: owners are pointers, compared by
	// identity. All three point to equal contents.
	ptrOwners := []*nfsv4.LockOwner4{
		{Clientid: 7, Owner: []byte("same")},
		{Clientid: 7, Owner: []byte("same")},
		{Clientid: 7, Owner: []byte("same")},
	}
	seqs := []*mc.Seq{
		locksetSeq("lockset-1owner-6points", []ownerID{"A"}, points6, map[string]int{"quick": 6, "thorough": 12}),
		locksetSeq("lockset-2owners-6points", []ownerID{"A", "B"}, points6, map[string]int{"quick": 4, "thorough": 10}),
		locksetSeq("lockset-3owners-6points", []ownerID{"A", "B", "C"}, points6, map[string]int{"quick": 3, "thorough": 5}),
		locksetSeq("lockset-3owners-4points", []ownerID{"A", "B", "C"}, points4, map[string]int{"quick": 6, "thorough": 12}),
		locksetSeq("lockset-ptr-3owners-5points", ptrOwners, points5, map[string]int{"quick": 4, "thorough": 6}),
		// Full (offset, length) alphabet, LOCKT by owner A and by a stranger.
		poolSeq("pool-2owners-2files", poolRanges, []int{0, 2}, map[string]int{"quick": 3, "thorough": 4}),
		// Fewer ranges, LOCKT only by the stranger: one step deeper.
		poolSeq("pool-2owners-2files-deep", []rangeSpec{poolRanges[0], poolRanges[1], poolRanges[2], poolRanges[6], poolRanges[9], poolRanges[11]}, []int{2}, map[string]int{"quick": 4, "thorough": 6}),
	}
	if os.Getenv("LOCKS_LAST_BYTE") != "" {
		// Opt-in demonstration of an upstream representation limit (not part
		// of the check): offset 2^64-1 with length "to EOF" is accepted as
		// the empty range [max,max), which excludes nobody.
		seqs = append(seqs, poolSeq("pool-last-byte", []rangeSpec{poolRanges[0], poolRanges[9], lastByteRange}, []int{2}, map[string]int{"quick": 2, "thorough": 2}))
	}
	mc.Main(t, concLockScenarios(), seqs)
}
