package vfs

import (
	"context"
	"testing"

	"verif/mc"

	"github.com/buildbarn/bb-storage/pkg/filesystem/path"
)

func mk(name string) path.Component { return path.MustNewComponent(name) }

var ctx = context.Background()

// TestMC is the entry point used by /verif/check (see /verif/mc/README.md).
//
//   - seq-*   (Engine B): operation sequences on the real
//     InMemoryPrepopulatedDirectory against the reference hierarchy of
//     model_test.go (C13), with a lock-leak probe after every call (C14).
//   - conc-*  (Engine A): 2-3 concurrent calls on a canned tree under the
//     controlled scheduler (C14 deadlock / livelock / leak, structural
//     invariants at the end).
func TestMC(t *testing.T) {
	mc.Main(t, buildScenarios(), buildSeqs())
}
