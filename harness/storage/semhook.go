package storage

import (
	"os"

	"verif/mc"

	"golang.org/x/sync/semaphore"
)

// The window between the return of an upload's CAS Put and what the upload
// goroutine does with the result contains exactly one call that leaves
// batched_store_blob_access.go: putSemaphore.Release(1). The copy of
// golang.org/x/sync used by module verif (third_party/xsync, see go.mod)
// offers a hook at the beginning of Release; here it becomes a scheduling
// point, but only for a goroutine that has just returned from a fake CAS Put
// that was a choice point ("armed"). Release calls made by the semaphore
// itself, by Puts that were refused without a choice point, or by other
// goroutines stay invisible, so the benign native race between errgroup's
// cancel and semaphore.Acquire (see fakeCAS.Put) stays hidden.
//
// armMode: "fail" (default) arms after a failed / cancelled Put only,
// "all" after every Put, "off" never.
var armMode = func() string {
	if m := os.Getenv("STORAGE_SEMHOOK"); m != "" {
		return m
	}
	return "fail"
}()

func (w *world) installSemHook() {
	w.armed = map[*mc.Thread]string{}
	semaphore.VerifReleaseHook = w.onSemRelease
}

func (w *world) arm(label string, failed, batchLayer bool) {
	if !batchLayer || armMode == "off" || (armMode == "fail" && !failed) {
		return
	}
	if t := w.x.Current(); t != nil {
		w.mu.Lock()
		w.armed[t] = label
		w.mu.Unlock()
	}
}

func (w *world) onSemRelease() {
	t := w.x.Current()
	if t == nil {
		return
	}
	w.mu.Lock()
	label, ok := w.armed[t]
	delete(w.armed, t)
	w.mu.Unlock()
	if ok {
		w.x.Point("sem.Release<-" + label)
	}
}
