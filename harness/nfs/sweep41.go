package nfs

import (
	"fmt"
	"regexp"

	"verif/mc"

	"github.com/buildbarn/go-xdr/pkg/protocols/nfsv4"
)

// NFSv4.1 twin of the error-path sweep of sweep40.go. Every request that
// carries a valid SEQUENCE goes through the bookkeeper's sequence(), so that
// the slot is tracked and, for C19, the failing COMPOUND is also sent with
// misordered slot sequence numbers, retransmitted (same bytes, nothing
// changes) and followed by a false retry.

type sweep41 struct {
	w         *world
	x         *mc.X
	f         failer
	c         *client41
	untracked bool
}

type bad41 struct {
	name string
	run  func(e *sweep41) nfsv4.Nfsstat4
}

func (e *sweep41) a() *open41   { return e.c.opens["O1"]["a"] }
func (e *sweep41) b() *open41   { return e.c.opens["O1"]["b"] }
func (e *sweep41) o2b() *open41 { return e.c.opens["O2"]["b"] }
func (e *sweep41) l1() *lock41  { return e.a().locks["L1"] }

// sweepPrefix41: client d1 has a session; open-owner O1 has a open read+write
// (opened in two steps, so that its state ID has seqid 2) and b open read;
// lock-owner L1 holds [0,1) of a (locked twice: lock state ID seqid 2); O2 has
// b open read; client d2 has sent EXCHANGE_ID only.
func sweepPrefix41(w *world, f failer) {
	c := w.client41("d1")
	c.exchangeID(f, 1)
	c.createSession(f, c.pendID, c.pendVerf)
	c.open(f, "O1", "a", accRead, howNoCreate, claimNull)
	c.open(f, "O1", "a", accWrite, howNoCreate, claimNull)
	c.lock(f, open41of(w, "d1", "O1", "a"), "L1", rangeB0, false, false)
	c.lock(f, open41of(w, "d1", "O1", "a"), "L1", rangeB0, false, false)
	c.open(f, "O1", "b", accRead, howNoCreate, claimNull)
	c.open(f, "O2", "b", accRead, howNoCreate, claimNull)
	w.client41("d2").exchangeID(f, 1)
	w.settle(f)
}

func (e *sweep41) absorb(res *nfsv4.Compound4res) {
	c := e.c
	opens := c.allOpens()
	findOpen := func(other [12]byte) *open41 {
		for _, op := range opens {
			if op.valid && op.sid.Other == other {
				return op
			}
		}
		return nil
	}
	findLock := func(other [12]byte) *lock41 {
		for _, op := range opens {
			for _, ln := range sortedKeys(op.locks) {
				if l := op.locks[ln]; l.valid && l.sid.Other == other {
					return l
				}
			}
		}
		return nil
	}
	for _, r := range res.Resarray {
		switch v := r.(type) {
		case *nfsv4.NfsResop4_OP_OPEN:
			if ok, is := v.Opopen.(*nfsv4.Open4res_NFS4_OK); is {
				if op := findOpen(ok.Resok4.Stateid.Other); op != nil {
					op.sid = ok.Resok4.Stateid
				} else {
					e.untracked = true
				}
			}
		case *nfsv4.NfsResop4_OP_OPEN_DOWNGRADE:
			if ok, is := v.OpopenDowngrade.(*nfsv4.OpenDowngrade4res_NFS4_OK); is {
				if op := findOpen(ok.Resok4.OpenStateid.Other); op != nil {
					op.sid = ok.Resok4.OpenStateid
				}
				e.untracked = true
			}
		case *nfsv4.NfsResop4_OP_LOCK:
			if ok, is := v.Oplock.(*nfsv4.Lock4res_NFS4_OK); is {
				if l := findLock(ok.Resok4.LockStateid.Other); l != nil {
					l.sid = ok.Resok4.LockStateid
				} else {
					e.untracked = true
				}
			}
		case *nfsv4.NfsResop4_OP_LOCKU:
			if ok, is := v.Oplocku.(*nfsv4.Locku4res_NFS4_OK); is {
				if l := findLock(ok.LockStateid.Other); l != nil {
					l.sid = ok.LockStateid
				}
			}
		case *nfsv4.NfsResop4_OP_FREE_STATEID:
			if v.OpfreeStateid.FsrStatus == nfsv4.NFS4_OK {
				e.untracked = true
			}
		}
	}
}

// seq sends ops behind a valid SEQUENCE. idx is the index of the operation
// that is expected to fail, counted in the whole COMPOUND (SEQUENCE is 0).
func (e *sweep41) seq(what string, idx int, misuse string, ops ...nfsv4.NfsArgop4) nfsv4.Nfsstat4 {
	w := e.w
	fsBefore := w.fs.sideEffects()
	res := e.c.sequence(e.f, what, ops...)
	if res == nil {
		return nfsv4.NFS4ERR_BADSESSION
	}
	st := opStatus(res, idx)
	if strictMisuse[misuse] {
		if res.Status == nfsv4.NFS4_OK {
			e.f.FailP("C18", "honoured-"+misuse, "NFSv4.1 %s (%s) succeeded", what, misuse)
		} else if after := w.fs.sideEffects(); after != fsBefore {
			e.f.FailP("C18", "refused-but-changed-"+misuse, "NFSv4.1 %s (%s) was refused with %d but had side effects: before %s, after %s", what, misuse, st, fsBefore, after)
		}
	}
	e.absorb(res)
	return st
}

// slotReply matches the rendering of a slot's cached reply in the server dump.
var slotReply = regexp.MustCompile(`last=\S+`)

// raw sends a COMPOUND whose SEQUENCE (if any) is itself wrong; nothing may
// change -- except that a request with the NEXT sequence number of a slot
// (here: one with too many operations) entitles the server to forget the
// reply it cached for the previous one.
func (e *sweep41) raw(what string, ops ...nfsv4.NfsArgop4) nfsv4.Nfsstat4 {
	w := e.w
	snap := func() string { return slotReply.ReplaceAllString(w.snapshot(), "last=*") }
	before := snap()
	res := w.compound(1, what, ops...)
	if res.Status != nfsv4.NFS4_OK {
		if after := snap(); after != before {
			failBoth(e.f, "sweep/refused-but-changed", "NFSv4.1 %s was refused with %d but changed state:\n--- before\n%s\n--- after\n%s", what, res.Status, before, after)
		}
	}
	return res.Status
}

func neverIssued41() nfsv4.Stateid4 {
	return nfsv4.Stateid4{Seqid: 1, Other: [12]byte{0x77, 0x77}}
}

type sidVariant41 struct {
	name, misuse string
	fh           func(e *sweep41, right *fakeLeaf) []nfsv4.NfsArgop4
	sid          func(e *sweep41, right nfsv4.Stateid4) nfsv4.Stateid4
}

func sidVariants41() []sidVariant41 {
	same := func(e *sweep41, l *fakeLeaf) []nfsv4.NfsArgop4 { return []nfsv4.NfsArgop4{putfh(l.handle)} }
	id := func(e *sweep41, s nfsv4.Stateid4) nfsv4.Stateid4 { return s }
	return []sidVariant41{
		{"never-issued state ID", "never-issued", same, func(e *sweep41, s nfsv4.Stateid4) nfsv4.Stateid4 { return neverIssued41() }},
		{"old state ID seqid", "old-seqid", same, func(e *sweep41, s nfsv4.Stateid4) nfsv4.Stateid4 { return withSeq(s, -1) }},
		{"future state ID seqid", "future-seqid", same, func(e *sweep41, s nfsv4.Stateid4) nfsv4.Stateid4 { return withSeq(s, 1) }},
		{"other file's handle", "other-file", func(e *sweep41, l *fakeLeaf) []nfsv4.NfsArgop4 {
			return []nfsv4.NfsArgop4{putfh(e.w.fs.linked["b"].handle)}
		}, id},
		{"no current filehandle", "no-filehandle", func(e *sweep41, l *fakeLeaf) []nfsv4.NfsArgop4 { return nil }, id},
		{"directory as current filehandle", "directory", func(e *sweep41, l *fakeLeaf) []nfsv4.NfsArgop4 { return []nfsv4.NfsArgop4{rootfh()} }, id},
		{"the current state ID although the COMPOUND has none", "no-current-stateid", same, func(e *sweep41, s nfsv4.Stateid4) nfsv4.Stateid4 { return currentSID }},
		{"a state ID with non-zero trailing bytes", "never-issued", same, func(e *sweep41, s nfsv4.Stateid4) nfsv4.Stateid4 { s.Other[11] = 1; return s }},
		// The other two special state IDs: legitimate for READ / WRITE /
		// SETATTR (anonymous access), meaningless for everything else.
		{"the anonymous state ID", "special", same, func(e *sweep41, s nfsv4.Stateid4) nfsv4.Stateid4 { return anonymousSID }},
		{"the READ bypass state ID", "special", same, func(e *sweep41, s nfsv4.Stateid4) nfsv4.Stateid4 { return bypassSID }},
	}
}

func open41bad(name string, firstOf func(e *sweep41) []nfsv4.NfsArgop4, mut func(e *sweep41, a *nfsv4.Open4args)) bad41 {
	return bad41{name: name, run: func(e *sweep41) nfsv4.Nfsstat4 {
		first := firstOf(e)
		a := nfsv4.Open4args{ShareAccess: accRead, ShareDeny: nfsv4.OPEN4_SHARE_DENY_NONE,
			Owner: nfsv4.OpenOwner4{Clientid: e.c.id, Owner: []byte("O1")}, Openhow: openflag(howNoCreate), Claim: &nfsv4.OpenClaim4_CLAIM_NULL{File: "b"}}
		mut(e, &a)
		return e.seq(name, 1+len(first), "", append(append([]nfsv4.NfsArgop4(nil), first...), &nfsv4.NfsArgop4_OP_OPEN{Opopen: a})...)
	}}
}

func catalogue41() []bad41 {
	var out []bad41
	add := func(name string, run func(e *sweep41) nfsv4.Nfsstat4) { out = append(out, bad41{name, run}) }
	root := func(e *sweep41) []nfsv4.NfsArgop4 { return []nfsv4.NfsArgop4{rootfh()} }
	none := func(e *sweep41) []nfsv4.NfsArgop4 { return nil }
	fhA := func(e *sweep41) []nfsv4.NfsArgop4 { return []nfsv4.NfsArgop4{putfh(e.a().leaf.handle)} }
	noMut := func(e *sweep41, a *nfsv4.Open4args) {}
	claim := func(cl nfsv4.OpenClaim4) func(e *sweep41, a *nfsv4.Open4args) {
		return func(e *sweep41, a *nfsv4.Open4args) { a.Claim = cl }
	}

	// ---- OPEN ----
	for _, n := range []string{"", ".", "..", "a/b", longName, "zz"} {
		n := n
		show := n
		if len(show) > 8 {
			show = fmt.Sprintf("%s...(%d bytes)", n[:4], len(n))
		}
		out = append(out, open41bad(fmt.Sprintf("OPEN name %q", show), root, claim(&nfsv4.OpenClaim4_CLAIM_NULL{File: n})))
	}
	previous := &nfsv4.OpenClaim4_CLAIM_PREVIOUS{DelegateType: nfsv4.OPEN_DELEGATE_NONE}
	out = append(out,
		open41bad("OPEN CLAIM_NULL with a file as current filehandle", fhA, noMut),
		open41bad("OPEN without current filehandle", none, noMut),
		open41bad("OPEN CLAIM_DELEGATE_CUR", root, claim(&nfsv4.OpenClaim4_CLAIM_DELEGATE_CUR{DelegateCurInfo: nfsv4.OpenClaimDelegateCur4{DelegateStateid: neverIssued41(), File: "a"}})),
		open41bad("OPEN CLAIM_DELEGATE_PREV", root, claim(&nfsv4.OpenClaim4_CLAIM_DELEGATE_PREV{FileDelegatePrev: "a"})),
		open41bad("OPEN CLAIM_DELEG_CUR_FH", fhA, claim(&nfsv4.OpenClaim4_CLAIM_DELEG_CUR_FH{OcDelegateStateid: neverIssued41()})),
		open41bad("OPEN CLAIM_DELEG_PREV_FH", fhA, claim(&nfsv4.OpenClaim4_CLAIM_DELEG_PREV_FH{})),
		open41bad("OPEN CLAIM_FH on the root directory", root, claim(&nfsv4.OpenClaim4_CLAIM_FH{})),
		open41bad("OPEN CLAIM_FH without current filehandle", none, claim(&nfsv4.OpenClaim4_CLAIM_FH{})),
		open41bad("OPEN CLAIM_PREVIOUS on the root directory", root, claim(previous)),
		open41bad("OPEN CLAIM_PREVIOUS with a delegation type", fhA, claim(&nfsv4.OpenClaim4_CLAIM_PREVIOUS{DelegateType: nfsv4.OPEN_DELEGATE_READ})),
		open41bad("OPEN CLAIM_PREVIOUS by an open-owner that does not have the file open", fhA, func(e *sweep41, a *nfsv4.Open4args) {
			a.Claim = previous
			a.Owner.Owner = []byte("O7")
		}),
		open41bad("OPEN CLAIM_PREVIOUS + CREATE GUARDED", fhA, func(e *sweep41, a *nfsv4.Open4args) { a.Claim = previous; a.Openhow = openflag(howGuarded) }),
		open41bad("OPEN CLAIM_FH + CREATE GUARDED", fhA, func(e *sweep41, a *nfsv4.Open4args) {
			a.Claim = &nfsv4.OpenClaim4_CLAIM_FH{}
			a.Openhow = openflag(howGuarded)
		}),
		open41bad("OPEN share_deny READ", root, func(e *sweep41, a *nfsv4.Open4args) { a.ShareDeny = nfsv4.OPEN4_SHARE_DENY_READ }),
		open41bad("OPEN share_deny BOTH", root, func(e *sweep41, a *nfsv4.Open4args) { a.ShareDeny = nfsv4.OPEN4_SHARE_DENY_BOTH }),
		open41bad("OPEN share_deny 7 (invalid)", root, func(e *sweep41, a *nfsv4.Open4args) { a.ShareDeny = 7 }),
		open41bad("OPEN share_access 0", root, func(e *sweep41, a *nfsv4.Open4args) { a.ShareAccess = 0 }),
		open41bad("OPEN share_access 8 (invalid)", root, func(e *sweep41, a *nfsv4.Open4args) { a.ShareAccess = 8 }),
		open41bad("OPEN share_access with only a WANT flag", root, func(e *sweep41, a *nfsv4.Open4args) { a.ShareAccess = nfsv4.OPEN4_SHARE_ACCESS_WANT_NO_DELEG }),
		open41bad("OPEN GUARDED of an existing file", root, func(e *sweep41, a *nfsv4.Open4args) { a.Openhow = openflag(howGuarded) }),
		open41bad("OPEN CREATE with an unsupported attribute", root, func(e *sweep41, a *nfsv4.Open4args) {
			a.Openhow = &nfsv4.Openflag4_OPEN4_CREATE{How: &nfsv4.Createhow4_UNCHECKED4{Createattrs: nfsv4.Fattr4{Attrmask: nfsv4.Bitmap4{1 << nfsv4.FATTR4_TYPE}}}}
		}),
		open41bad("OPEN CREATE with truncated attribute values", root, func(e *sweep41, a *nfsv4.Open4args) {
			a.Openhow = &nfsv4.Openflag4_OPEN4_CREATE{How: &nfsv4.Createhow4_GUARDED4{Createattrs: nfsv4.Fattr4{Attrmask: nfsv4.Bitmap4{1 << nfsv4.FATTR4_SIZE}, AttrVals: []byte{0, 0}}}}
		}),
		open41bad("OPEN CREATE EXCLUSIVE4", root, func(e *sweep41, a *nfsv4.Open4args) {
			a.Openhow = &nfsv4.Openflag4_OPEN4_CREATE{How: &nfsv4.Createhow4_EXCLUSIVE4{}}
		}),
		open41bad("OPEN CREATE EXCLUSIVE4_1", root, func(e *sweep41, a *nfsv4.Open4args) {
			a.Openhow = &nfsv4.Openflag4_OPEN4_CREATE{How: &nfsv4.Createhow4_EXCLUSIVE4_1{}}
		}),
	)

	// ---- operations that take a state ID ----
	type sidOp struct {
		name string
		lock bool // takes the lock state ID
		op   func(e *sweep41, sid nfsv4.Stateid4) nfsv4.NfsArgop4
	}
	sidOps := []sidOp{
		{"CLOSE", false, func(e *sweep41, sid nfsv4.Stateid4) nfsv4.NfsArgop4 {
			return &nfsv4.NfsArgop4_OP_CLOSE{Opclose: nfsv4.Close4args{OpenStateid: sid}}
		}},
		{"OPEN_DOWNGRADE", false, func(e *sweep41, sid nfsv4.Stateid4) nfsv4.NfsArgop4 {
			return &nfsv4.NfsArgop4_OP_OPEN_DOWNGRADE{OpopenDowngrade: nfsv4.OpenDowngrade4args{OpenStateid: sid, ShareAccess: accRead}}
		}},
		{"LOCK(new lock-owner)", false, func(e *sweep41, sid nfsv4.Stateid4) nfsv4.NfsArgop4 {
			return &nfsv4.NfsArgop4_OP_LOCK{Oplock: nfsv4.Lock4args{Locktype: nfsv4.WRITE_LT, Offset: 4, Length: 1,
				Locker: &nfsv4.Locker4_TRUE{OpenOwner: nfsv4.OpenToLockOwner4{OpenStateid: sid, LockOwner: nfsv4.LockOwner4{Clientid: e.c.id, Owner: []byte("L9")}}}}}
		}},
		{"LOCK(existing lock-owner)", true, func(e *sweep41, sid nfsv4.Stateid4) nfsv4.NfsArgop4 {
			return &nfsv4.NfsArgop4_OP_LOCK{Oplock: nfsv4.Lock4args{Locktype: nfsv4.WRITE_LT, Offset: 1, Length: 1,
				Locker: &nfsv4.Locker4_FALSE{LockOwner: nfsv4.ExistLockOwner4{LockStateid: sid}}}}
		}},
		{"LOCKU", true, func(e *sweep41, sid nfsv4.Stateid4) nfsv4.NfsArgop4 {
			return &nfsv4.NfsArgop4_OP_LOCKU{Oplocku: nfsv4.Locku4args{Locktype: nfsv4.WRITE_LT, LockStateid: sid, Offset: 0, Length: 1}}
		}},
		{"READ(open state ID)", false, func(e *sweep41, sid nfsv4.Stateid4) nfsv4.NfsArgop4 { return ioOp(ioRead, sid) }},
		{"WRITE(open state ID)", false, func(e *sweep41, sid nfsv4.Stateid4) nfsv4.NfsArgop4 { return ioOp(ioWrite, sid) }},
		{"SETATTR(open state ID)", false, func(e *sweep41, sid nfsv4.Stateid4) nfsv4.NfsArgop4 { return ioOp(ioSetattr, sid) }},
		{"READ(lock state ID)", true, func(e *sweep41, sid nfsv4.Stateid4) nfsv4.NfsArgop4 { return ioOp(ioRead, sid) }},
		{"WRITE(lock state ID)", true, func(e *sweep41, sid nfsv4.Stateid4) nfsv4.NfsArgop4 { return ioOp(ioWrite, sid) }},
	}
	for _, so := range sidOps {
		so := so
		for _, v := range sidVariants41() {
			v := v
			name := fmt.Sprintf("%s with %s", so.name, v.name)
			add(name, func(e *sweep41) nfsv4.Nfsstat4 {
				right := e.a().sid
				if so.lock {
					right = e.l1().sid
				}
				fh := v.fh(e, e.a().leaf)
				return e.seq(name, 1+len(fh), v.misuse, append(fh, so.op(e, v.sid(e, right)))...)
			})
		}
		// The wrong kind of state ID.
		name := so.name + " with the other kind of state ID"
		add(name, func(e *sweep41) nfsv4.Nfsstat4 {
			wrong := e.l1().sid
			if so.lock {
				wrong = e.a().sid
			}
			return e.seq(name, 2, "wrong-kind", putfh(e.a().leaf.handle), so.op(e, wrong))
		})
	}
	for _, v := range sidVariants41()[:3] {
		v := v
		name := "FREE_STATEID with " + v.name
		add(name, func(e *sweep41) nfsv4.Nfsstat4 {
			return e.seq(name, 1, v.misuse, &nfsv4.NfsArgop4_OP_FREE_STATEID{OpfreeStateid: nfsv4.FreeStateid4args{FsaStateid: v.sid(e, e.l1().sid)}})
		})
	}
	add("FREE_STATEID of a lock state ID with locks held", func(e *sweep41) nfsv4.Nfsstat4 {
		return e.seq("FREE_STATEID(locks held)", 1, "", &nfsv4.NfsArgop4_OP_FREE_STATEID{OpfreeStateid: nfsv4.FreeStateid4args{FsaStateid: e.l1().sid}})
	})
	add("FREE_STATEID of an open state ID", func(e *sweep41) nfsv4.Nfsstat4 {
		return e.seq("FREE_STATEID(open state ID)", 1, "", &nfsv4.NfsArgop4_OP_FREE_STATEID{OpfreeStateid: nfsv4.FreeStateid4args{FsaStateid: e.a().sid}})
	})
	add("TEST_STATEID of junk", func(e *sweep41) nfsv4.Nfsstat4 {
		return e.seq("TEST_STATEID(junk)", 1, "", &nfsv4.NfsArgop4_OP_TEST_STATEID{OptestStateid: nfsv4.TestStateid4args{TsStateids: []nfsv4.Stateid4{neverIssued41(), anonymousSID, bypassSID, currentSID, withSeq(e.a().sid, 1), withSeq(e.l1().sid, -1)}}})
	})

	// ---- the current state ID across a change of the current filehandle ----
	// {[pre,] setter (makes a state ID of file a the current state ID),
	// changer (makes b the current filehandle), user(current state ID)}.
	type csidSetter struct {
		name string
		ops  func(e *sweep41) []nfsv4.NfsArgop4
	}
	setters := []csidSetter{
		{"OPEN a by O1", func(e *sweep41) []nfsv4.NfsArgop4 {
			return []nfsv4.NfsArgop4{rootfh(), &nfsv4.NfsArgop4_OP_OPEN{Opopen: nfsv4.Open4args{ShareAccess: accRead, ShareDeny: nfsv4.OPEN4_SHARE_DENY_NONE,
				Owner: nfsv4.OpenOwner4{Clientid: e.c.id, Owner: []byte("O1")}, Openhow: openflag(howNoCreate), Claim: &nfsv4.OpenClaim4_CLAIM_NULL{File: "a"}}}}
		}},
		{"LOCK a by L1", func(e *sweep41) []nfsv4.NfsArgop4 {
			return []nfsv4.NfsArgop4{putfh(e.a().leaf.handle), &nfsv4.NfsArgop4_OP_LOCK{Oplock: nfsv4.Lock4args{Locktype: nfsv4.WRITE_LT, Offset: 0, Length: 1,
				Locker: &nfsv4.Locker4_FALSE{LockOwner: nfsv4.ExistLockOwner4{LockStateid: e.l1().sid}}}}}
		}},
		{"LOCKU a by L1", func(e *sweep41) []nfsv4.NfsArgop4 {
			return []nfsv4.NfsArgop4{putfh(e.a().leaf.handle), &nfsv4.NfsArgop4_OP_LOCKU{Oplocku: nfsv4.Locku4args{Locktype: nfsv4.WRITE_LT, LockStateid: e.l1().sid, Offset: 1, Length: 1}}}
		}},
	}
	type csidChanger struct {
		name      string
		pre, post func(e *sweep41) []nfsv4.NfsArgop4
	}
	fhB := func(e *sweep41) []nfsv4.NfsArgop4 { return []nfsv4.NfsArgop4{putfh(e.b().leaf.handle)} }
	changers := []csidChanger{
		{"PUTFH b", none, fhB},
		{"PUTROOTFH, LOOKUP b", none, func(e *sweep41) []nfsv4.NfsArgop4 { return []nfsv4.NfsArgop4{rootfh(), lookupOp("b")} }},
		{"SAVEFH, PUTFH b", none, func(e *sweep41) []nfsv4.NfsArgop4 {
			return []nfsv4.NfsArgop4{&nfsv4.NfsArgop4_OP_SAVEFH{}, putfh(e.b().leaf.handle)}
		}},
		{"RESTOREFH of b (saved before)", func(e *sweep41) []nfsv4.NfsArgop4 {
			return []nfsv4.NfsArgop4{putfh(e.b().leaf.handle), &nfsv4.NfsArgop4_OP_SAVEFH{}}
		}, func(e *sweep41) []nfsv4.NfsArgop4 { return []nfsv4.NfsArgop4{&nfsv4.NfsArgop4_OP_RESTOREFH{}} }},
	}
	for _, se := range setters {
		se := se
		for _, ch := range changers {
			ch := ch
			for _, u := range csidUsers() {
				u := u
				name := fmt.Sprintf("%s, %s, then %s with the current state ID", se.name, ch.name, u.name)
				add(name, func(e *sweep41) nfsv4.Nfsstat4 {
					ops := append(append(ch.pre(e), se.ops(e)...), ch.post(e)...)
					idx := 1 + len(ops)
					cw := watchCSID(e.a().leaf, e.b().leaf)
					res := e.c.sequence(e.f, name, append(ops, u.op(e.c))...)
					if res == nil {
						return nfsv4.NFS4ERR_BADSESSION
					}
					e.absorb(res)
					if idx < len(res.Resarray) {
						cw.judge(e.f, name, u, opStatus(res, idx))
					}
					return opStatus(res, idx)
				})
			}
		}
		// The legitimate uses: no change of the filehandle in between (must
		// work like the explicit state ID), and the filehandle saved and
		// restored together with its current state ID (accepted either way).
		for _, k := range []ioKind{ioRead, ioWrite} {
			k := k
			name := fmt.Sprintf("%s, then %s with the current state ID (same filehandle)", se.name, k)
			add(name, func(e *sweep41) nfsv4.Nfsstat4 {
				ops := se.ops(e)
				res := e.c.sequence(e.f, name, append(ops, ioOp(k, currentSID))...)
				if res == nil {
					return nfsv4.NFS4ERR_BADSESSION
				}
				e.absorb(res)
				if res.Status != nfsv4.NFS4_OK && opStatus(res, 0) == nfsv4.NFS4_OK {
					e.f.FailP("C18", "entitled-refused/current-stateid", "NFSv4.1 {%s, %s(current state ID)} on the file the state ID belongs to (open read+write) failed with %d after %d results", se.name, k, res.Status, len(res.Resarray))
				}
				return res.Status
			})
			name2 := fmt.Sprintf("%s, SAVEFH, PUTFH b, RESTOREFH, then %s with the current state ID", se.name, k)
			add(name2, func(e *sweep41) nfsv4.Nfsstat4 {
				ops := append(se.ops(e), &nfsv4.NfsArgop4_OP_SAVEFH{}, putfh(e.b().leaf.handle), &nfsv4.NfsArgop4_OP_RESTOREFH{})
				bAll := e.b().leaf.allCounters()
				res := e.c.sequence(e.f, name2, append(ops, ioOp(k, currentSID))...)
				if res == nil {
					return nfsv4.NFS4ERR_BADSESSION
				}
				e.absorb(res)
				if after := e.b().leaf.allCounters(); after != bAll {
					e.f.FailP("C18", "honoured-current-stateid-other-file", "NFSv4.1 {%s}: the I/O at the restored filehandle of a touched b: %s -> %s", name2, bAll, after)
				}
				return res.Status
			})
		}
	}

	// Wrong order.
	add("CLOSE twice in one COMPOUND", func(e *sweep41) nfsv4.Nfsstat4 {
		a := e.a()
		res := e.c.sequence(e.f, "CLOSE+CLOSE", putfh(a.leaf.handle), &nfsv4.NfsArgop4_OP_CLOSE{Opclose: nfsv4.Close4args{OpenStateid: a.sid}}, &nfsv4.NfsArgop4_OP_CLOSE{Opclose: nfsv4.Close4args{OpenStateid: a.sid}})
		if res == nil {
			return nfsv4.NFS4ERR_BADSESSION
		}
		if len(res.Resarray) > 2 && opStatus(res, 2) == nfsv4.NFS4_OK {
			e.closedA()
		}
		if res.Status == nfsv4.NFS4_OK {
			e.f.FailP("C18", "honoured-closed", "NFSv4.1: the second CLOSE with the same state ID in one COMPOUND succeeded")
		}
		return opStatus(res, 3)
	})
	add("CLOSE, then READ / WRITE / LOCKU / CLOSE with the closed state IDs", func(e *sweep41) nfsv4.Nfsstat4 {
		a, lsid := e.a(), e.l1().sid
		if st := e.c.close(e.f, a); st != nfsv4.NFS4_OK {
			return st
		}
		e.seq("READ(closed state ID)", 2, "closed", putfh(a.leaf.handle), ioOp(ioRead, a.sid))
		e.seq("WRITE(lock state ID of a closed file)", 2, "closed", putfh(a.leaf.handle), ioOp(ioWrite, lsid))
		e.seq("LOCKU(lock state ID of a closed file)", 2, "closed", putfh(a.leaf.handle), &nfsv4.NfsArgop4_OP_LOCKU{Oplocku: nfsv4.Locku4args{Locktype: nfsv4.WRITE_LT, LockStateid: lsid, Offset: 0, Length: 1}})
		return e.seq("CLOSE(again)", 2, "closed", putfh(a.leaf.handle), &nfsv4.NfsArgop4_OP_CLOSE{Opclose: nfsv4.Close4args{OpenStateid: a.sid}})
	})
	add("OPEN_DOWNGRADE to access the open does not have", func(e *sweep41) nfsv4.Nfsstat4 {
		b := e.b()
		return e.seq("OPEN_DOWNGRADE(b,write)", 2, "", putfh(b.leaf.handle), &nfsv4.NfsArgop4_OP_OPEN_DOWNGRADE{OpopenDowngrade: nfsv4.OpenDowngrade4args{OpenStateid: b.sid, ShareAccess: accWrite}})
	})
	for _, v := range []struct {
		name         string
		access, deny uint32
	}{{"share_access 0", 0, 0}, {"share_access 8", 8, 0}, {"share_deny READ", accRead, nfsv4.OPEN4_SHARE_DENY_READ}} {
		v := v
		add("OPEN_DOWNGRADE with "+v.name, func(e *sweep41) nfsv4.Nfsstat4 {
			a := e.a()
			return e.seq("OPEN_DOWNGRADE("+v.name+")", 2, "", putfh(a.leaf.handle), &nfsv4.NfsArgop4_OP_OPEN_DOWNGRADE{OpopenDowngrade: nfsv4.OpenDowngrade4args{OpenStateid: a.sid, ShareAccess: v.access, ShareDeny: v.deny}})
		})
	}
	lockNew := func(name, lowner string, r lockRange) {
		add(name, func(e *sweep41) nfsv4.Nfsstat4 {
			a := e.a()
			return e.seq(name, 2, "", putfh(a.leaf.handle), &nfsv4.NfsArgop4_OP_LOCK{Oplock: nfsv4.Lock4args{Locktype: nfsv4.WRITE_LT, Offset: r.offset, Length: r.length,
				Locker: &nfsv4.Locker4_TRUE{OpenOwner: nfsv4.OpenToLockOwner4{OpenStateid: a.sid, LockOwner: nfsv4.LockOwner4{Clientid: e.c.id, Owner: []byte(lowner)}}}}})
		})
	}
	lockNew("LOCK by a new lock-owner with an empty range", "L2", rangeZero)
	lockNew("LOCK by a new lock-owner with an overflowing range", "L2", rangeOvfl)
	lockNew("LOCK by a new lock-owner that is denied", "L2", rangeB0)
	for _, r := range []lockRange{rangeZero, rangeOvfl} {
		r := r
		add("LOCK by the existing lock-owner with range "+r.name, func(e *sweep41) nfsv4.Nfsstat4 {
			return e.seq("LOCK(L1,"+r.name+")", 2, "", putfh(e.a().leaf.handle), &nfsv4.NfsArgop4_OP_LOCK{Oplock: nfsv4.Lock4args{Locktype: nfsv4.WRITE_LT, Offset: r.offset, Length: r.length,
				Locker: &nfsv4.Locker4_FALSE{LockOwner: nfsv4.ExistLockOwner4{LockStateid: e.l1().sid}}}})
		})
		add("LOCKU with range "+r.name, func(e *sweep41) nfsv4.Nfsstat4 {
			return e.seq("LOCKU("+r.name+")", 2, "", putfh(e.a().leaf.handle), &nfsv4.NfsArgop4_OP_LOCKU{Oplocku: nfsv4.Locku4args{Locktype: nfsv4.WRITE_LT, LockStateid: e.l1().sid, Offset: r.offset, Length: r.length}})
		})
	}
	add("LOCK with an invalid locker discriminant", func(e *sweep41) nfsv4.Nfsstat4 {
		return e.seq("LOCK(no locker)", 2, "", putfh(e.a().leaf.handle), &nfsv4.NfsArgop4_OP_LOCK{Oplock: nfsv4.Lock4args{Locktype: nfsv4.WRITE_LT, Offset: 0, Length: 1}})
	})
	add("LOCKU of a range that is not locked", func(e *sweep41) nfsv4.Nfsstat4 { return e.c.locku(e.f, e.a(), "L1", rangeB1) })
	lockt := func(name string, fh func(e *sweep41) []nfsv4.NfsArgop4, r lockRange) {
		add(name, func(e *sweep41) nfsv4.Nfsstat4 {
			ops := fh(e)
			return e.seq(name, 1+len(ops), "", append(ops, &nfsv4.NfsArgop4_OP_LOCKT{Oplockt: nfsv4.Lockt4args{
				Locktype: nfsv4.WRITE_LT, Offset: r.offset, Length: r.length, Owner: nfsv4.LockOwner4{Clientid: e.c.id, Owner: []byte("L2")}}})...)
		})
	}
	lockt("LOCKT without current filehandle", none, rangeB0)
	lockt("LOCKT on a directory", root, rangeB0)
	lockt("LOCKT with an empty range", fhA, rangeZero)
	lockt("LOCKT with an overflowing range", fhA, rangeOvfl)
	lockt("LOCKT that is denied", fhA, rangeB0)
	add("WRITE through an open that is read-only", func(e *sweep41) nfsv4.Nfsstat4 {
		return e.seq("WRITE(read-only open)", 2, "open-mode", putfh(e.b().leaf.handle), ioOp(ioWrite, e.b().sid))
	})
	add("SETATTR with a valid state ID and an unsupported attribute", func(e *sweep41) nfsv4.Nfsstat4 {
		return e.seq("SETATTR(unsupported attribute)", 2, "", putfh(e.a().leaf.handle), &nfsv4.NfsArgop4_OP_SETATTR{Opsetattr: nfsv4.Setattr4args{Stateid: e.a().sid, ObjAttributes: nfsv4.Fattr4{Attrmask: nfsv4.Bitmap4{1 << nfsv4.FATTR4_TYPE}}}})
	})
	add("SETATTR with a valid state ID and truncated attribute values", func(e *sweep41) nfsv4.Nfsstat4 {
		return e.seq("SETATTR(truncated)", 2, "", putfh(e.a().leaf.handle), &nfsv4.NfsArgop4_OP_SETATTR{Opsetattr: nfsv4.Setattr4args{Stateid: e.a().sid, ObjAttributes: nfsv4.Fattr4{Attrmask: nfsv4.Bitmap4{1 << nfsv4.FATTR4_SIZE}, AttrVals: []byte{1}}}})
	})
	for _, k := range []ioKind{ioRead, ioWrite, ioSetattr} {
		k := k
		name := fmt.Sprintf("%s with the anonymous state ID on a directory", k)
		add(name, func(e *sweep41) nfsv4.Nfsstat4 { return e.seq(name, 2, "", rootfh(), ioOp(k, anonymousSID)) })
	}

	// ---- stateless operations inside SEQUENCE ----
	misc := func(name string, idx int, ops ...nfsv4.NfsArgop4) {
		add(name, func(e *sweep41) nfsv4.Nfsstat4 { return e.seq(name, idx, "", ops...) })
	}
	misc("PUTFH of a handle nobody knows", 1, putfh([]byte("FH:nothing#9")))
	misc("SAVEFH without current filehandle", 1, &nfsv4.NfsArgop4_OP_SAVEFH{})
	misc("RESTOREFH without saved filehandle", 1, &nfsv4.NfsArgop4_OP_RESTOREFH{})
	misc("LOOKUP of an empty name", 2, rootfh(), &nfsv4.NfsArgop4_OP_LOOKUP{Oplookup: nfsv4.Lookup4args{Objname: ""}})
	misc("LOOKUP of a missing file", 2, rootfh(), &nfsv4.NfsArgop4_OP_LOOKUP{Oplookup: nfsv4.Lookup4args{Objname: "zz"}})
	misc("REMOVE of an empty name", 2, rootfh(), &nfsv4.NfsArgop4_OP_REMOVE{Opremove: nfsv4.Remove4args{Target: ""}})
	misc("RENAME without saved filehandle", 2, rootfh(), &nfsv4.NfsArgop4_OP_RENAME{Oprename: nfsv4.Rename4args{Oldname: "a", Newname: "c"}})
	misc("SEQUENCE a second time in the COMPOUND", 2, rootfh(), &nfsv4.NfsArgop4_OP_SEQUENCE{})
	// Operations the server answers with an OP_ILLEGAL result. The reply
	// cache of the slot does not remember which operation was asked for, so
	// ANY other operation sent with the same slot and sequence number is
	// answered with the cached NFS4ERR_OP_ILLEGAL reply (known finding,
	// reported under its own fingerprint; everything else keeps its own).
	illegal := func(name string, op nfsv4.NfsArgop4) {
		add(name, func(e *sweep41) nfsv4.Nfsstat4 {
			f := e.f
			e.f = relabel{f, "false-retry-answered/SEQUENCE", "false-retry-answered/after-illegal-op"}
			defer func() { e.f = f }()
			return e.seq(name, 1, "", op)
		})
	}
	illegal("an illegal operation", &nfsv4.NfsArgop4_OP_ILLEGAL{})
	illegal("an NFSv4.0-only operation (RENEW)", &nfsv4.NfsArgop4_OP_RENEW{Oprenew: nfsv4.Renew4args{Clientid: 1}})
	illegal("an NFSv4.0-only operation (OPEN_CONFIRM)", &nfsv4.NfsArgop4_OP_OPEN_CONFIRM{})
	illegal("an NFSv4.0-only operation (RELEASE_LOCKOWNER)", &nfsv4.NfsArgop4_OP_RELEASE_LOCKOWNER{})
	misc("an unsupported operation (LAYOUTGET)", 1, &nfsv4.NfsArgop4_OP_LAYOUTGET{})
	misc("RECLAIM_COMPLETE", 1, &nfsv4.NfsArgop4_OP_RECLAIM_COMPLETE{})
	misc("DESTROY_CLIENTID of an unknown client inside SEQUENCE", 1, &nfsv4.NfsArgop4_OP_DESTROY_CLIENTID{OpdestroyClientid: nfsv4.DestroyClientid4args{DcaClientid: 0}})
	add("DESTROY_CLIENTID of the busy client inside its own SEQUENCE", func(e *sweep41) nfsv4.Nfsstat4 {
		return e.seq("SEQUENCE+DESTROY_CLIENTID(self)", 1, "", &nfsv4.NfsArgop4_OP_DESTROY_CLIENTID{OpdestroyClientid: nfsv4.DestroyClientid4args{DcaClientid: e.c.id}})
	})
	add("EXCHANGE_ID + CREATE_SESSION of a new incarnation inside SEQUENCE of the old one", func(e *sweep41) nfsv4.Nfsstat4 {
		res := e.c.sequence(e.f, "SEQUENCE+EXCHANGE_ID", &nfsv4.NfsArgop4_OP_EXCHANGE_ID{OpexchangeId: nfsv4.ExchangeId4args{
			EiaClientowner: nfsv4.ClientOwner4{CoVerifier: nfsv4.Verifier4{2}, CoOwnerid: []byte("d1")}, EiaStateProtect: &nfsv4.StateProtect4A_SP4_NONE{}}})
		if res == nil || res.Status != nfsv4.NFS4_OK {
			return nfsv4.NFS4ERR_SERVERFAULT
		}
		ok := res.Resarray[1].(*nfsv4.NfsResop4_OP_EXCHANGE_ID).OpexchangeId.(*nfsv4.ExchangeId4res_NFS4_OK)
		return e.seq("SEQUENCE+CREATE_SESSION(new incarnation)", 1, "", createSessionArgs(ok.EirResok4.EirClientid, ok.EirResok4.EirSequenceid))
	})

	// ---- the COMPOUND / SEQUENCE itself ----
	sess := func(e *sweep41) *session41 { return e.c.session() }
	add("SEQUENCE with an unknown session", func(e *sweep41) nfsv4.Nfsstat4 {
		s := *sess(e)
		s.id[3] ^= 0xff
		return e.raw("SEQUENCE(unknown session)", sequenceOp(&s, 0, 1), rootfh())
	})
	add("SEQUENCE with a slot the session does not have", func(e *sweep41) nfsv4.Nfsstat4 {
		return e.raw("SEQUENCE(slot 5)", sequenceOp(sess(e), 5, 1), rootfh())
	})
	add("SEQUENCE with a misordered sequence number", func(e *sweep41) nfsv4.Nfsstat4 {
		return e.raw("SEQUENCE(seq+2)", sequenceOp(sess(e), 0, sess(e).seq[0]+2), rootfh())
	})
	add("SEQUENCE replayed with other operations", func(e *sweep41) nfsv4.Nfsstat4 {
		return e.raw("SEQUENCE(false retry)", sequenceOp(sess(e), 0, sess(e).seq[0]), &nfsv4.NfsArgop4_OP_GETFH{}, &nfsv4.NfsArgop4_OP_GETFH{}, &nfsv4.NfsArgop4_OP_GETFH{}, &nfsv4.NfsArgop4_OP_GETFH{}, &nfsv4.NfsArgop4_OP_GETFH{})
	})
	add("too many operations in one COMPOUND", func(e *sweep41) nfsv4.Nfsstat4 {
		ops := []nfsv4.NfsArgop4{sequenceOp(sess(e), 0, sess(e).seq[0]+1)}
		for i := 0; i < 9; i++ {
			ops = append(ops, rootfh())
		}
		return e.raw("SEQUENCE+9 operations", ops...)
	})
	add("SEQUENCE not first", func(e *sweep41) nfsv4.Nfsstat4 {
		return e.raw("PUTROOTFH+SEQUENCE", rootfh(), sequenceOp(sess(e), 0, sess(e).seq[0]+1))
	})
	add("OPEN without SEQUENCE", func(e *sweep41) nfsv4.Nfsstat4 {
		return e.raw("OPEN(no SEQUENCE)", &nfsv4.NfsArgop4_OP_OPEN{Opopen: nfsv4.Open4args{ShareAccess: accRead, Owner: nfsv4.OpenOwner4{Clientid: e.c.id, Owner: []byte("O1")}, Openhow: openflag(howNoCreate), Claim: &nfsv4.OpenClaim4_CLAIM_NULL{File: "b"}}})
	})
	add("an empty COMPOUND", func(e *sweep41) nfsv4.Nfsstat4 { return e.raw("empty COMPOUND") })
	add("a COMPOUND with the wrong minor version", func(e *sweep41) nfsv4.Nfsstat4 {
		res, err := e.w.p41.NfsV4Nfsproc4Compound(ctx, &nfsv4.Compound4args{Tag: "t", Minorversion: 0, Argarray: []nfsv4.NfsArgop4{rootfh()}})
		if err != nil {
			panic(err)
		}
		e.x.CheckNoLocksHeld("COMPOUND(minor version 0)")
		return res.Status
	})
	add("CREATE_SESSION followed by another operation", func(e *sweep41) nfsv4.Nfsstat4 {
		return e.raw("CREATE_SESSION+PUTROOTFH", createSessionArgs(e.c.id, e.c.csNext[e.c.id]), rootfh())
	})
	add("CREATE_SESSION with an unknown client ID", func(e *sweep41) nfsv4.Nfsstat4 { return e.raw("CREATE_SESSION(unknown)", createSessionArgs(0xdead, 1)) })
	add("CREATE_SESSION with a misordered sequence number", func(e *sweep41) nfsv4.Nfsstat4 {
		return e.raw("CREATE_SESSION(seq+1)", createSessionArgs(e.c.id, e.c.csNext[e.c.id]+1))
	})
	add("DESTROY_SESSION of an unknown session", func(e *sweep41) nfsv4.Nfsstat4 {
		return e.raw("DESTROY_SESSION(unknown)", &nfsv4.NfsArgop4_OP_DESTROY_SESSION{OpdestroySession: nfsv4.DestroySession4args{DsaSessionid: nfsv4.Sessionid4{9}}})
	})
	add("DESTROY_SESSION followed by another operation", func(e *sweep41) nfsv4.Nfsstat4 {
		return e.raw("DESTROY_SESSION+PUTROOTFH", &nfsv4.NfsArgop4_OP_DESTROY_SESSION{OpdestroySession: nfsv4.DestroySession4args{DsaSessionid: sess(e).id}}, rootfh())
	})
	add("DESTROY_CLIENTID of a client with open state", func(e *sweep41) nfsv4.Nfsstat4 {
		return e.raw("DESTROY_CLIENTID(busy)", &nfsv4.NfsArgop4_OP_DESTROY_CLIENTID{OpdestroyClientid: nfsv4.DestroyClientid4args{DcaClientid: e.c.id}})
	})
	add("DESTROY_CLIENTID of an unknown client", func(e *sweep41) nfsv4.Nfsstat4 {
		return e.raw("DESTROY_CLIENTID(unknown)", &nfsv4.NfsArgop4_OP_DESTROY_CLIENTID{OpdestroyClientid: nfsv4.DestroyClientid4args{DcaClientid: 0xdead}})
	})
	add("EXCHANGE_ID followed by another operation", func(e *sweep41) nfsv4.Nfsstat4 {
		return e.raw("EXCHANGE_ID+PUTROOTFH", &nfsv4.NfsArgop4_OP_EXCHANGE_ID{OpexchangeId: nfsv4.ExchangeId4args{
			EiaClientowner: nfsv4.ClientOwner4{CoVerifier: nfsv4.Verifier4{3}, CoOwnerid: []byte("d3")}, EiaStateProtect: &nfsv4.StateProtect4A_SP4_NONE{}}}, rootfh())
	})
	add("BIND_CONN_TO_SESSION of an unknown session", func(e *sweep41) nfsv4.Nfsstat4 {
		return e.raw("BIND_CONN_TO_SESSION(unknown)", &nfsv4.NfsArgop4_OP_BIND_CONN_TO_SESSION{OpbindConnToSession: nfsv4.BindConnToSession4args{BctsaSessid: nfsv4.Sessionid4{9}, BctsaDir: nfsv4.CDFC4_FORE}})
	})
	add("BIND_CONN_TO_SESSION with an invalid direction", func(e *sweep41) nfsv4.Nfsstat4 {
		return e.raw("BIND_CONN_TO_SESSION(direction 9)", &nfsv4.NfsArgop4_OP_BIND_CONN_TO_SESSION{OpbindConnToSession: nfsv4.BindConnToSession4args{BctsaSessid: sess(e).id, BctsaDir: 9}})
	})
	add("DESTROY_SESSION of the session inside its own SEQUENCE", func(e *sweep41) nfsv4.Nfsstat4 {
		// Sent as it is: the session's reply cache dies with the session,
		// so a retransmission is answered NFS4ERR_BADSESSION (RFC 8881,
		// section 18.37.3); no open or lock state is involved.
		s := sess(e)
		res := e.w.compound(1, "SEQUENCE+DESTROY_SESSION(self)", sequenceOp(s, 0, s.seq[0]+1), &nfsv4.NfsArgop4_OP_DESTROY_SESSION{OpdestroySession: nfsv4.DestroySession4args{DsaSessionid: s.id}})
		if opStatus(res, 0) == nfsv4.NFS4_OK {
			s.seq[0]++
		}
		if res.Status == nfsv4.NFS4_OK {
			s.valid = false
		}
		return res.Status
	})
	add("REMOVE of an open file, then the follow-up through its handle", func(e *sweep41) nfsv4.Nfsstat4 {
		return e.seq("REMOVE(a)", 2, "", rootfh(), &nfsv4.NfsArgop4_OP_REMOVE{Opremove: nfsv4.Remove4args{Target: "a"}})
	})
	return out
}

// closedA: the bookkeeper learns that O1's open of a (and the lock state that
// hung off it) is gone.
func (e *sweep41) closedA() {
	a := e.a()
	a.valid = false
	for _, l := range a.locks {
		l.valid = false
	}
	e.c.releaseModelLocks(a)
}

func (e *sweep41) followUp() {
	w, c, f := e.w, e.c, e.f
	w.settle(f)
	if !c.ensureSession(f) {
		failBoth(f, "sweep/follow-up-refused/CREATE_SESSION", "NFSv4.1: the client could not get a session after the failing request")
		return
	}
	if res := c.sequence(f, "SEQUENCE+PUTROOTFH", rootfh()); res == nil || res.Status != nfsv4.NFS4_OK {
		failBoth(f, "sweep/follow-up-refused/SEQUENCE", "NFSv4.1: a well-formed SEQUENCE+PUTROOTFH after the failing request failed")
	}
	if a := e.a(); a.valid && !a.gone {
		bits := uint32(0)
		if c.entitled(a) {
			bits = a.bits
		}
		c.io(f, ioRead, a.leaf, a.sid, bits)
	}
	if st := c.open(f, "O1", "b", accRead, howNoCreate, claimNull); st != nfsv4.NFS4_OK && c.alive {
		failBoth(f, "sweep/follow-up-refused/OPEN", "NFSv4.1: the well-formed OPEN of b by open-owner O1 after the failing request was answered %d", st)
	}
	if a, l := e.a(), e.l1(); c.entitled(a) && l.valid && !l.gone {
		if st := c.locku(f, a, "L1", rangeB0); st != nfsv4.NFS4_OK {
			failBoth(f, "sweep/follow-up-refused/LOCKU", "NFSv4.1: the well-formed LOCKU by lock-owner L1 after the failing request was answered %d", st)
		}
	}
	c.closeEverything(f)
	w.settle(f)
	if !e.untracked {
		if ok, msg := w.fs.balanced(); !ok {
			f.FailP("C18", "reclaim-close/unbalanced", "NFSv4.1 error sweep: after the client closed every file it had open: %s\n%s", msg, w.serverDump())
		}
	}
	w.checkPassive(f)
	c.checkEntitlements(f)
}

func sweepThread41(w *world, x *mc.X, r *results) {
	cat := catalogue41()
	k := x.ChooseFree("failing request", len(cat))
	e := &sweep41{w: w, x: x, f: x, c: w.client41("d1")}
	x.Logf("failing request %d: %s", k, cat[k].name)
	st := cat[k].run(e)
	r.set("request", fmt.Sprintf("%d %s -> %d", k, cat[k].name, st))
	sweepLog("4.1 %3d %-90s -> %d untracked=%v", k, cat[k].name, st, e.untracked)
	x.ResetLocal(fmt.Sprintf("sent %d untracked=%v", k, e.untracked))
	e.followUp()
}

// relabel reports one fingerprint under another name.
type relabel struct {
	f        failer
	from, to string
}

func (r relabel) FailP(prop, fingerprint, format string, args ...any) {
	if fingerprint == r.from {
		fingerprint = r.to
	}
	r.f.FailP(prop, fingerprint, format, args...)
}
func (r relabel) Logf(format string, args ...any) { r.f.Logf(format, args...) }
