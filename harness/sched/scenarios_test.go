package sched

// Scenario library (DESIGN.md, "The sched harness"). Every scenario is a
// closed driver of 2-4 threads with 1-3 calls each whose keys are chosen to
// collide. All scenarios run the monitors of all five properties; which
// ones are evaluated depends on the property being checked.

var core = []string{"C01", "C02", "C03", "C06", "C07"}

func scenarioConfigs() []*config {
	pre0 := []uint32{0}
	return []*config{
		{
			Name: "S1-dedup-race", Props: core,
			Doc:         "two clients, same cacheable action, different invocations, one worker that completes ok or with exit!=0",
			Predeclared: pre0, MaxTicks: 2,
			Clients: []clientSpec{{Name: "c1", Calls: []string{"exec A i1"}}, {Name: "c2", Calls: []string{"exec A i2"}}},
			Workers: []workerSpec{{Name: "w1", MaxCalls: 3, Busy: []string{"ok", "fail"}}},
		},
		{
			Name: "S1b-dedup-same-invocation", Props: core,
			Doc:         "two clients in the same invocation (one operation, two waiters), one of them may leave; plus a do_not_cache pair",
			Predeclared: pre0, MaxTicks: 3,
			Clients: []clientSpec{{Name: "c1", Calls: []string{"exec A i1"}, Cancels: 1}, {Name: "c2", Calls: []string{"exec A i1"}}},
			Workers: []workerSpec{{Name: "w1", MaxCalls: 3, Busy: []string{"ok", "exec"}}},
		},
		{
			Name: "S1c-do-not-cache", Props: []string{"C01", "C03"},
			Doc:         "two clients, same do_not_cache action: never merged; a third request after completion",
			Predeclared: pre0, MaxTicks: 2,
			Clients: []clientSpec{{Name: "c1", Calls: []string{"exec N i1", "exec A i1", "exec A i1"}}, {Name: "c2", Calls: []string{"exec N i2"}}},
			Workers: []workerSpec{{Name: "w1", MaxCalls: 4, Busy: []string{"ok"}}},
		},
		{
			Name: "S2-handover-race", Props: core,
			Doc:         "a worker blocked in Synchronize vs. an arriving task vs. the worker's cancellation / idle-synchronization timeout",
			Predeclared: pre0, MaxTicks: 3, IdleSync: 2,
			Workers: []workerSpec{{Name: "w1", MaxCalls: 2, Busy: []string{"ok", "vanish"}, Cancels: 1}},
			Clients: []clientSpec{{Name: "c1", Stage: 1, Calls: []string{"exec A i1"}}},
		},
		{
			Name: "S3-completion-vs-cancel-vs-timer", Props: core,
			Doc:         "worker completion vs. client cancellation vs. the update timer vs. a failing Send",
			Predeclared: pre0, MaxTicks: 3, SendFaults: true,
			Clients: []clientSpec{{Name: "c1", Calls: []string{"exec A i1"}, Cancels: 1}},
			Workers: []workerSpec{{Name: "w1", MaxCalls: 3, Busy: []string{"ok", "exec", "err"}}},
		},
		{
			Name: "S4-kill-vs-completion-vs-reattach", Props: core,
			Doc:         "operator kill vs. worker completion vs. a client that is cancelled and re-attaches with WaitExecution",
			Predeclared: pre0, MaxTicks: 3,
			Clients:   []clientSpec{{Name: "c1", Calls: []string{"exec A i1", "wait c1.0"}, Cancels: 1}},
			Workers:   []workerSpec{{Name: "w1", MaxCalls: 2, Busy: []string{"ok"}}},
			Operators: []operatorSpec{{Name: "op", Calls: []string{"kill c1.0"}}},
		},
		{
			Name: "S5-worker-vanishes", Props: core,
			Doc:      "worker-created queue; the worker takes the task and vanishes or is slow; the clock passes the worker timeout and the queue timeout while the client waits",
			MaxTicks: 4,
			Workers:  []workerSpec{{Name: "w1", MaxCalls: 3, Busy: []string{"vanish", "sleep4", "ok"}}},
			Clients:  []clientSpec{{Name: "c1", Stage: 1, Calls: []string{"exec A i1"}}},
		},
		{
			Name: "S8-abandon-vs-completion", Props: core,
			Doc:         "both clients of a deduplicated task may leave; no-waiter timeout vs. worker completion",
			Predeclared: pre0, MaxTicks: 4,
			Clients: []clientSpec{{Name: "c1", Calls: []string{"exec A i1"}, Cancels: 1}, {Name: "c2", Calls: []string{"exec A i2"}, Cancels: 1}},
			Workers: []workerSpec{{Name: "w1", MaxCalls: 2, Busy: []string{"ok", "sleep3"}}},
		},
	}
}
