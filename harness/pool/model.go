package pool

import (
	"fmt"
	"io"
	"math/bits"
	"os"
	"sort"
	"strconv"
	"strings"
	"sync"

	"verif/mc"

	rpool "github.com/buildbarn/bb-remote-execution/pkg/filesystem/pool"
	"github.com/buildbarn/bb-storage/pkg/filesystem"
)

const prop = "C15"

// rep is what the oracles need from the engine: *mc.SeqCtx (Engine B) and
// *mc.X (Engine A) both provide it.
type rep interface {
	FailP(prop, fingerprint, format string, args ...any)
	Logf(format string, args ...any)
	Failed() bool
}

// config describes one mc.Seq: the stack under test, its geometry and the
// alphabet.
type config struct {
	name               string
	stack              string // "full": quota(blockdev(fake device, bitmap)); "block": blockdev only; "quotafake": quota(fake base pool); "quotaconc": quota(concBase), Engine A only
	ss, capS           int    // sector size in bytes, capacity in sectors
	maxFiles, maxBytes int    // quota; maxFiles == 0: no quota layer
	pattern            bool   // pattern hole source instead of ZeroHoleSource
	slots              int
	newSizes           []int
	woffs, wlens       []int
	truncs             []int
	faultOps           []string
	ballast            bool  // pre-allocate most of the device so that the next allocations cross a bitmap word
	preopen            []int // sizes of the files that exist in the initial state (one per slot), saves depth
	depth              map[string]int
	baseFaults         bool  // Engine A, "quotaconc": every base pool call may fail (one deviation each)
	concSetup          []sop // Engine A: calls made one after another before the threads start
}

func (c *config) hasQuota() bool { return c.maxFiles > 0 }
func (c *config) hasDevice() bool {
	return c.stack != "quotafake" && c.stack != "quotaconc"
}

// origin records where a tag byte came from.
type origin struct {
	file int  // incarnation id of the file
	off  int  // offset it was written to / provided at
	kind byte // 'w' written by WriteAt, 'h' provided by the hole source
}

// fileSt is one open file: the real handle plus its reference model.
type fileSt struct {
	f        filesystem.FileReadWriter
	hs       *patternHS // nil: rpool.ZeroHoleSource
	hsLimit  int        // model: hole source data exists only below this offset
	content  []byte     // model: expected contents; len(content) is the expected size
	id       int
	baseFile *fakeBaseFile // quotafake stack only
}

// holeAt is the model's idea of what an unwritten byte at offset o reads as.
func (fs *fileSt) holeAt(o int) byte {
	if fs.hs != nil && o < fs.hsLimit && o < len(fs.hs.vals) {
		return fs.hs.vals[o]
	}
	return 0
}

// sys is one instance: system under test, fakes and model.
type sys struct {
	cfg     *config
	fl      *faults
	dev     *fakeDevice
	alloc   rpool.SectorAllocator
	top     rpool.FilePool
	files   []*fileSt
	nextID  int
	origins [256]origin
	ballast []uint32
	cbase   *concBase // "quotaconc" stack only
	// Engine A only (nil under Engine B): the execution, for oracles that
	// live inside fakes.
	x *mc.X
	// lastOp names the kind and outcome of the most recent operation; it
	// makes the fingerprints of state-based oracles specific.
	lastOp string
}

func newSys(cfg *config) *sys {
	s := &sys{cfg: cfg, fl: &faults{}, files: make([]*fileSt, cfg.slots)}
	var base rpool.FilePool
	if cfg.hasDevice() {
		s.dev = &fakeDevice{fl: s.fl, data: make([]byte, cfg.ss*cfg.capS)}
		s.alloc = rpool.NewBitmapSectorAllocator(uint32(cfg.capS))
		if cfg.ballast {
			s.setupBallast()
		}
		base = rpool.NewBlockDeviceBackedFilePool(s.dev, s.alloc, cfg.ss)
	} else if cfg.stack == "quotaconc" {
		s.cbase = &concBase{s: s}
		base = s.cbase
	} else {
		base = &fakeBasePool{fl: s.fl}
	}
	if cfg.hasQuota() {
		s.top = rpool.NewQuotaEnforcingFilePool(base, uint64(cfg.maxFiles), uint64(cfg.maxBytes))
	} else {
		s.top = base
	}
	return s
}

// setupBallast occupies sectors so that only {11, 12, 31} and 62..capS
// remain free and the next-fit cursor stands at sector 62: the next
// multi-sector allocation crosses the 64-bit bitmap word boundary and later
// ones wrap around into a fragmented first word.
func (s *sys) setupBallast() {
	first, n, err := s.alloc.AllocateContiguous(61)
	if err != nil || first != 1 || n != 61 {
		panic(fmt.Sprintf("ballast allocation: %d %d %v", first, n, err))
	}
	for sec := uint32(1); sec <= 61; sec++ {
		if sec == 11 || sec == 12 || sec == 31 {
			continue
		}
		s.ballast = append(s.ballast, sec)
	}
	s.alloc.FreeList([]uint32{11, 12, 31})
}

// freeCapacity is the number of sectors not held by the ballast.
func (s *sys) freeCapacity() int { return s.cfg.capS - len(s.ballast) }

// freshTags returns n byte values that occur nowhere in the instance
// (device, models, hole sources) and registers their origin: the i-th value
// belongs to offset offs(i) of file incarnation `file`.
func (s *sys) freshTags(n, file int, offs func(i int) int, kind byte) []byte {
	var used [256]bool
	used[0] = true
	if s.dev != nil {
		for _, b := range s.dev.data {
			used[b] = true
		}
	}
	for _, fs := range s.files {
		if fs == nil {
			continue
		}
		for _, b := range fs.content {
			used[b] = true
		}
		if fs.hs != nil {
			for _, b := range fs.hs.vals {
				used[b] = true
			}
		}
		if fs.baseFile != nil {
			for _, b := range fs.baseFile.content {
				used[b] = true
			}
		}
	}
	out := make([]byte, 0, n)
	for v := 1; v < 256 && len(out) < n; v++ {
		if !used[v] {
			s.origins[v] = origin{file: file, off: offs(len(out)), kind: kind}
			out = append(out, byte(v))
		}
	}
	if len(out) != n {
		panic("harness: out of tag values")
	}
	return out
}

// fail reports a violation found by a state-based oracle; the fingerprint
// names the oracle and the kind and outcome of the operation that led to the
// state.
func (s *sys) fail(c rep, fingerprint, format string, args ...any) {
	c.FailP(prop, fingerprint+"/after-"+s.lastOp, format, args...)
}

// classify names the kind of wrong byte for the fingerprint.
func (s *sys) classify(fs *fileSt, o int, got byte) string {
	if got == 0 {
		return "content/lost-data"
	}
	og := s.origins[got]
	switch {
	case og.kind == 0:
		return "content/garbage"
	case og.file != fs.id:
		return "isolation/foreign-file"
	case og.off != o:
		return "isolation/other-offset"
	default:
		return "isolation/stale"
	}
}

func (s *sys) describe(got byte) string {
	if got == 0 {
		return "0x00"
	}
	og := s.origins[got]
	if og.kind == 0 {
		return fmt.Sprintf("0x%02x (unknown origin)", got)
	}
	what := "written to"
	if og.kind == 'h' {
		what = "hole source byte of"
	}
	return fmt.Sprintf("0x%02x (%s file#%d offset %d)", got, what, og.file, og.off)
}

func (s *sys) openCountAndBytes(except *fileSt) (int, int) {
	n, sum := 0, 0
	for _, fs := range s.files {
		if fs != nil && fs != except {
			n++
			sum += len(fs.content)
		}
	}
	return n, sum
}

func (s *sys) freeSectors() int {
	bm, _, ok := rpool.VerifAllocatorState(s.alloc)
	if !ok {
		return -1
	}
	n := 0
	for _, w := range bm {
		n += bits.OnesCount64(w)
	}
	return n
}

// ---------------------------------------------------------------------
// Operations
// ---------------------------------------------------------------------

func (s *sys) doNewFile(c rep, slot, size int) {
	id := s.nextID
	s.nextID++
	var hs rpool.HoleSource = rpool.ZeroHoleSource
	var phs *patternHS
	if s.cfg.pattern {
		hsSize := size + debugHSExtra
		phs = &patternHS{fl: s.fl, vals: make([]byte, hsSize), data: make([]bool, hsSize), cur: hsSize}
		var dataOffs []int
		for o := 0; o < hsSize; o++ {
			if patternLayout[o%len(patternLayout)] == 'D' {
				phs.data[o] = true
				dataOffs = append(dataOffs, o)
			}
		}
		for i, v := range s.freshTags(len(dataOffs), id, func(i int) int { return dataOffs[i] }, 'h') {
			phs.vals[dataOffs[i]] = v
		}
		hs = phs
	}
	open, sum := s.openCountAndBytes(nil)
	expectReject := s.cfg.hasQuota() && (open >= s.cfg.maxFiles || sum+size > s.cfg.maxBytes)
	fired0 := s.fl.fired
	f, err := s.top.NewFile(hs, uint64(size))
	fired := s.fl.fired != fired0
	c.Logf("  NewFile -> err=%v", err)
	s.lastOp = "NewFile-ok"
	stat(c, fmt.Sprintf("NewFile err=%v fault=%v quotaReject=%v", err != nil, fired, expectReject))
	if err != nil {
		s.lastOp = "NewFile-failed"
		if !fired && !expectReject {
			c.FailP(prop, "spurious-error/NewFile", "NewFile(size %d) failed without injected fault, quota %d/%d files %d/%d bytes in use: %v", size, open, s.cfg.maxFiles, sum, s.cfg.maxBytes, err)
		}
		return
	}
	if f == nil {
		c.FailP(prop, "newfile/nil-without-error", "NewFile returned nil, nil")
		return
	}
	if expectReject {
		c.FailP(prop, "quota/overcommit/NewFile", "NewFile(size %d) accepted although %d files / %d bytes are in use (limits %d / %d)", size, open, sum, s.cfg.maxFiles, s.cfg.maxBytes)
	}
	fs := &fileSt{f: f, hs: phs, hsLimit: size + debugHSExtra, id: id, content: make([]byte, size)}
	if phs != nil {
		copy(fs.content, phs.vals)
	}
	if s.cfg.stack == "quotafake" {
		inner := f
		if info := rpool.VerifFileState(f); info.HasQuota {
			inner = info.Inner
		}
		fs.baseFile, _ = inner.(*fakeBaseFile)
	}
	s.files[slot] = fs
}

func (s *sys) doWrite(c rep, slot, off, n int) {
	fs := s.files[slot]
	buf := s.freshTags(n, fs.id, func(i int) int { return off + i }, 'w')
	old := len(fs.content)
	_, sumOthers := s.openCountAndBytes(fs)
	end := off + n
	quotaReject := s.cfg.hasQuota() && end > old && sumOthers+end > s.cfg.maxBytes
	fired0 := s.fl.fired
	nw, err := fs.f.WriteAt(append([]byte(nil), buf...), int64(off))
	fired := s.fl.fired != fired0
	c.Logf("  WriteAt(%x @%d) -> n=%d err=%v", buf, off, nw, err)
	s.lastOp = "WriteAt-ok"
	if err != nil {
		s.lastOp = "WriteAt-failed"
	}
	if statsOn {
		frag := false
		if info := rpool.VerifFileState(fs.f); info.HasBlock {
			prev := uint32(0)
			for _, sec := range info.Sectors {
				if sec != 0 && prev != 0 && sec != prev+1 {
					frag = true
				}
				prev = sec
			}
		}
		stat(c, fmt.Sprintf("WriteAt err=%v partial=%v fault=%v quotaReject=%v fragmentedAfter=%v", err != nil, nw > 0 && nw < n, fired, quotaReject, frag))
		if s.alloc != nil && s.freeSectors() == 0 {
			stat(c, "device full after WriteAt")
		}
	}
	if nw < 0 || nw > n {
		c.FailP(prop, "write/bad-count", "WriteAt returned n=%d for %d bytes", nw, n)
		return
	}
	if err == nil {
		if nw != n {
			c.FailP(prop, "write/short-without-error", "WriteAt(off %d, len %d) returned n=%d, err=nil", off, n, nw)
			return
		}
		// Model: the gap between the old end and off reads as hole.
		for o := old; o < end; o++ {
			fs.content = append(fs.content, fs.holeAt(o))
		}
		copy(fs.content[off:], buf)
		return
	}
	if !fired && !quotaReject {
		// The only legitimate reason left is exhaustion of the device.
		if s.alloc == nil || s.freeSectors() != 0 {
			c.FailP(prop, "spurious-error/WriteAt", "WriteAt(off %d, len %d) failed (n=%d, %v) without injected fault, within quota, with %d free sectors", off, n, nw, err, s.freeSectors())
			return
		}
	}
	lo := off
	if old < lo {
		lo = old
	}
	s.resync(c, fs, "WriteAt", lo, end, end, buf, off)
}

func (s *sys) doTruncate(c rep, slot, size int) {
	fs := s.files[slot]
	old := len(fs.content)
	_, sumOthers := s.openCountAndBytes(fs)
	quotaReject := s.cfg.hasQuota() && size > old && sumOthers+size > s.cfg.maxBytes
	fired0 := s.fl.fired
	err := fs.f.Truncate(int64(size))
	fired := s.fl.fired != fired0
	c.Logf("  Truncate(%d) -> err=%v", size, err)
	s.lastOp = "Truncate-ok"
	if err != nil {
		s.lastOp = "Truncate-failed"
	}
	stat(c, fmt.Sprintf("Truncate err=%v fault=%v quotaReject=%v shrink=%v", err != nil, fired, quotaReject, size < old))
	if err == nil {
		if size < old {
			fs.content = fs.content[:size:size]
			if size < fs.hsLimit {
				fs.hsLimit = size
			}
		}
		for o := old; o < size; o++ {
			fs.content = append(fs.content, fs.holeAt(o))
		}
		return
	}
	if !fired && !quotaReject {
		c.FailP(prop, "spurious-error/Truncate", "Truncate(%d) of a %d byte file failed without injected fault and within quota: %v", size, old, err)
		return
	}
	lo, hi := old, size
	if lo > hi {
		lo, hi = hi, lo
	}
	s.resync(c, fs, "Truncate", lo, hi, size, nil, 0)
}

func (s *sys) doClose(c rep, slot int) {
	fs := s.files[slot]
	fired0 := s.fl.fired
	err := fs.f.Close()
	fired := s.fl.fired != fired0
	c.Logf("  Close -> err=%v", err)
	s.lastOp = "Close-ok"
	if err != nil {
		s.lastOp = "Close-failed"
	}
	stat(c, fmt.Sprintf("Close err=%v fault=%v", err != nil, fired))
	if err != nil && !fired {
		c.FailP(prop, "spurious-error/Close", "Close failed without injected fault: %v", err)
	}
	// Closed in any case: resources must have been returned (checked by
	// the invariants and by Final).
	s.files[slot] = nil
}

// resync is called after a FAILED mutating operation, whose effect the
// property statement leaves open. It reads the file back with faults
// suspended, accepts per byte the old value, the value being written, zero or
// the hole source's byte inside the range [lo,hi) touched by the operation
// (anything else is an isolation breach), demands unchanged contents outside
// it, and then adopts what it saw as the new model.
func (s *sys) resync(c rep, fs *fileSt, op string, lo, hi, target int, newVals []byte, newOff int) {
	if s.x == nil {
		// (Engine A scenarios arm no faults in s.fl, and their threads
		// read it concurrently.)
		saved := s.fl.suspend()
		defer s.fl.resume(saved)
	}
	old := fs.content
	szl, err := fs.f.Len()
	sz := int(szl)
	minSz, maxSz := len(old), target
	if minSz > maxSz {
		minSz, maxSz = maxSz, minSz
	}
	if err != nil || sz < minSz || sz > maxSz {
		c.FailP(prop, "size/after-failed-"+op, "after failed %s the file is %d bytes (err %v), expected between %d and %d", op, sz, err, minSz, maxSz)
		return
	}
	buf := make([]byte, sz)
	if sz > 0 {
		n, err := fs.f.ReadAt(buf, 0)
		if n != sz || (err != nil && err != io.EOF) {
			c.FailP(prop, "read/after-failed-"+op, "reading back %d bytes after failed %s: n=%d err=%v", sz, op, n, err)
			return
		}
	}
	for o := 0; o < sz; o++ {
		got := buf[o]
		ok := o < len(old) && got == old[o]
		if !ok && o >= lo && o < hi {
			ok = got == 0 ||
				(fs.hs != nil && o < len(fs.hs.vals) && got == fs.hs.vals[o]) ||
				(newVals != nil && o >= newOff && o < newOff+len(newVals) && got == newVals[o-newOff])
		}
		if !ok {
			c.FailP(prop, s.classify(fs, o, got)+"/after-failed-"+op, "after failed %s, file#%d offset %d reads %s", op, fs.id, o, s.describe(got))
			return
		}
	}
	fs.content = buf
	if fs.hs != nil && fs.hs.cur < fs.hsLimit {
		fs.hsLimit = fs.hs.cur
	}
}

// ---------------------------------------------------------------------
// Check: non-destructive observation of every state
// ---------------------------------------------------------------------

func (s *sys) check(c rep) {
	saved := s.fl.suspend()
	defer s.fl.resume(saved)
	for _, fs := range s.files {
		if fs != nil && !c.Failed() {
			s.checkFile(c, fs)
		}
	}
	if !c.Failed() && !debugNoInvariants {
		s.checkConservation(c)
	}
}

// Coverage counters (POOL_STATS=1 prints them after the run): which kinds of
// outcomes the exploration actually reached. Diagnostic only; they influence
// nothing.
var (
	statsOn = os.Getenv("POOL_STATS") != ""
	statsMu sync.Mutex
	stats   = map[string]int{}
)

func stat(c rep, name string) {
	if sc, ok := c.(*mc.SeqCtx); statsOn && !(ok && sc.Replaying) {
		statsMu.Lock()
		stats[name]++
		statsMu.Unlock()
	}
}

func printStats() {
	if !statsOn {
		return
	}
	var names []string
	for n := range stats {
		names = append(names, n)
	}
	sort.Strings(names)
	for _, n := range names {
		fmt.Fprintf(os.Stderr, "POOL_STATS %-40s %d\n", n, stats[n])
	}
}

// debugHSExtra (POOL_HS_EXTRA=n) makes the pattern hole source n bytes longer
// than the file it is handed to, i.e. leaves the input domain assumed by this
// harness (see props.json, assumptions). Experiment only; never set by ./check.
var debugHSExtra, _ = strconv.Atoi(os.Getenv("POOL_HS_EXTRA"))

// debugNoInvariants (POOL_NO_INVARIANTS=1) switches the structural
// invariants off so that the detection power of the contents oracle and of
// the destructive close-all oracle can be assessed on their own. Never set by
// ./check.
var debugNoInvariants = os.Getenv("POOL_NO_INVARIANTS") != ""

func (s *sys) isData(fs *fileSt, o int) bool {
	b := fs.content[o]
	if b == 0 {
		return false
	}
	if s.origins[b].kind == 'w' {
		return true
	}
	return fs.hs != nil && o < fs.hsLimit && o < len(fs.hs.data) && fs.hs.data[o]
}

func (s *sys) checkFile(c rep, fs *fileSt) {
	size := len(fs.content)
	if l, err := fs.f.Len(); err != nil || int(l) != size {
		s.fail(c, "size/Len", "file#%d: Len() = %d, %v; model size %d", fs.id, l, err, size)
		return
	}
	// Every read window.
	for off := 0; off <= size+1; off++ {
		for n := 1; off+n <= size+2; n++ {
			buf := make([]byte, n)
			got, err := fs.f.ReadAt(buf, int64(off))
			want := size - off
			if want < 0 {
				want = 0
			}
			if want > n {
				want = n
			}
			if got != want {
				s.fail(c, "read/count", "file#%d size %d: ReadAt(off %d, len %d) returned n=%d, err=%v; want n=%d", fs.id, size, off, n, got, err, want)
				return
			}
			for i := 0; i < got; i++ {
				if buf[i] != fs.content[off+i] {
					s.fail(c, s.classify(fs, off+i, buf[i]), "file#%d size %d: ReadAt(off %d, len %d) byte at offset %d is %s, expected %s", fs.id, size, off, n, off+i, s.describe(buf[i]), s.describe(fs.content[off+i]))
					return
				}
			}
			switch {
			case off+n < size:
				if err != nil {
					s.fail(c, "read/error", "file#%d size %d: ReadAt(off %d, len %d) returned %v", fs.id, size, off, n, err)
					return
				}
			case off+n == size:
				if err != nil && err != io.EOF {
					s.fail(c, "read/error", "file#%d size %d: ReadAt(off %d, len %d) returned %v", fs.id, size, off, n, err)
					return
				}
			default:
				if err != io.EOF {
					s.fail(c, "read/eof", "file#%d size %d: ReadAt(off %d, len %d) returned err=%v instead of io.EOF", fs.id, size, off, n, err)
					return
				}
			}
		}
	}
	// Region seeks. Only what SEEK_DATA/SEEK_HOLE semantics guarantee is
	// demanded: a data seek may not skip over data, a hole seek may not
	// land on data; the granularity of holes is left to the implementation.
	for off := 0; off <= size+1; off++ {
		r, err := fs.f.GetNextRegionOffset(int64(off), filesystem.Data)
		rh, errh := fs.f.GetNextRegionOffset(int64(off), filesystem.Hole)
		if off >= size {
			if err != io.EOF || errh != io.EOF {
				s.fail(c, "region/eof", "file#%d size %d: GetNextRegionOffset(%d) past the end returned Data:(%d,%v) Hole:(%d,%v), want io.EOF", fs.id, size, off, r, err, rh, errh)
				return
			}
			continue
		}
		nextData := size
		for o := off; o < size; o++ {
			if s.isData(fs, o) {
				nextData = o
				break
			}
		}
		switch {
		case err == io.EOF:
			if nextData < size {
				s.fail(c, "region/data-skipped", "file#%d size %d: GetNextRegionOffset(%d, Data) = EOF although offset %d holds data", fs.id, size, off, nextData)
				return
			}
		case err != nil:
			s.fail(c, "region/error", "file#%d: GetNextRegionOffset(%d, Data) = %v", fs.id, off, err)
			return
		default:
			if int(r) < off || int(r) >= size || int(r) > nextData {
				s.fail(c, "region/data-skipped", "file#%d size %d: GetNextRegionOffset(%d, Data) = %d; next data byte at or after %d is at %d (%d = none)", fs.id, size, off, r, off, nextData, size)
				return
			}
		}
		if errh != nil {
			s.fail(c, "region/error", "file#%d size %d: GetNextRegionOffset(%d, Hole) = %v", fs.id, size, off, errh)
			return
		}
		if int(rh) < off || int(rh) > size || (int(rh) < size && s.isData(fs, int(rh))) {
			s.fail(c, "region/hole-on-data", "file#%d size %d: GetNextRegionOffset(%d, Hole) = %d, which is not a hole", fs.id, size, off, rh)
			return
		}
	}
	// Failing reads: every position of a device read error and a hole
	// source error within a read of the whole file. A read that reports
	// success must be right; a failing one may return anything in p[:n]
	// except bytes that do not belong there.
	if size == 0 {
		return
	}
	for k := 1; k <= 5; k++ {
		s.fl.devReadIn, s.fl.hs = 0, false
		if k <= 4 {
			if s.dev == nil {
				continue
			}
			s.fl.devReadIn = k
		} else {
			if fs.hs == nil {
				continue
			}
			s.fl.hs = true
		}
		fired0 := s.fl.fired
		buf := make([]byte, size)
		n, err := fs.f.ReadAt(buf, 0)
		fired := s.fl.fired != fired0
		s.fl.devReadIn, s.fl.hs = 0, false
		if n < 0 || n > size {
			s.fail(c, "read/count", "file#%d: faulty ReadAt returned n=%d of %d", fs.id, n, size)
			return
		}
		if err == nil || err == io.EOF {
			if n != size {
				s.fail(c, "read/count", "file#%d size %d: ReadAt(0, %d) with injected fault (fired=%v) returned n=%d err=%v", fs.id, size, size, fired, n, err)
				return
			}
			for i := 0; i < n; i++ {
				if buf[i] != fs.content[i] {
					s.fail(c, s.classify(fs, i, buf[i])+"/swallowed-read-error", "file#%d: ReadAt with injected fault (fired=%v) reported success but offset %d is %s, expected %s", fs.id, fired, i, s.describe(buf[i]), s.describe(fs.content[i]))
					return
				}
			}
		} else {
			if !fired {
				s.fail(c, "spurious-error/ReadAt", "file#%d: ReadAt failed without a fault having fired: %v", fs.id, err)
				return
			}
			for i := 0; i < n; i++ {
				if buf[i] != fs.content[i] && buf[i] != 0 {
					s.fail(c, s.classify(fs, i, buf[i])+"/failed-read", "file#%d: failing ReadAt returned n=%d and offset %d is %s, expected %s", fs.id, n, i, s.describe(buf[i]), s.describe(fs.content[i]))
					return
				}
			}
		}
	}
}

// checkConservation: structural invariants read through the dump hook.
// Sectors: every sector referenced by a file is marked allocated, no sector
// is referenced twice, nothing else is allocated, the sentinel bits past the
// capacity stay allocated. Quota: remaining + in use == configured maximum.
func (s *sys) checkConservation(c rep) {
	open, sum := s.openCountAndBytes(nil)
	for _, fs := range s.files {
		if fs == nil {
			continue
		}
		info := rpool.VerifFileState(fs.f)
		if info.HasQuota && int(info.QuotaSize) != len(fs.content) {
			s.fail(c, "quota/file-size", "file#%d: the quota layer accounts %d bytes, the file has %d", fs.id, info.QuotaSize, len(fs.content))
			return
		}
		if info.HasBlock && int(info.SizeBytes) != len(fs.content) {
			s.fail(c, "size/internal", "file#%d: sizeBytes=%d, model size %d", fs.id, info.SizeBytes, len(fs.content))
			return
		}
	}
	if s.cfg.hasQuota() {
		fr, br, ok := rpool.VerifQuotaState(s.top)
		if !ok {
			panic("harness: top pool is not the quota pool")
		}
		if int64(fr) != int64(s.cfg.maxFiles-open) {
			s.fail(c, "conservation/quota-files", "quota: %d files remaining with %d open, limit %d", int64(fr), open, s.cfg.maxFiles)
			return
		}
		if int64(br) != int64(s.cfg.maxBytes-sum) {
			s.fail(c, "conservation/quota-bytes", "quota: %d bytes remaining with %d bytes in open files, limit %d", int64(br), sum, s.cfg.maxBytes)
			return
		}
	}
	if s.alloc == nil {
		return
	}
	bm, _, ok := rpool.VerifAllocatorState(s.alloc)
	if !ok {
		return
	}
	isFree := func(sec uint32) bool { return bm[(sec-1)/64]&(1<<((sec-1)%64)) != 0 }
	refs := map[uint32]int{}
	for _, sec := range s.ballast {
		refs[sec] = -1
	}
	for _, fs := range s.files {
		if fs == nil {
			continue
		}
		for idx, sec := range rpool.VerifFileState(fs.f).Sectors {
			if sec == 0 {
				continue
			}
			if sec > uint32(s.cfg.capS) {
				s.fail(c, "conservation/sector-out-of-range", "file#%d sector index %d refers to device sector %d of %d", fs.id, idx, sec, s.cfg.capS)
				return
			}
			if owner, dup := refs[sec]; dup {
				s.fail(c, "conservation/sector-handed-out-twice", "device sector %d is referenced by file#%d (index %d) and by file#%d", sec, fs.id, idx, owner)
				return
			}
			refs[sec] = fs.id
			if isFree(sec) {
				s.fail(c, "conservation/sector-in-use-marked-free", "device sector %d is referenced by file#%d (index %d) but marked free in the allocator", sec, fs.id, idx)
				return
			}
		}
	}
	free := 0
	for w, word := range bm {
		for b := 0; b < 64; b++ {
			if word&(1<<b) == 0 {
				continue
			}
			if w*64+b >= s.cfg.capS {
				s.fail(c, "conservation/sentinel-freed", "allocator bit %d beyond the capacity of %d sectors is marked free", w*64+b, s.cfg.capS)
				return
			}
			free++
		}
	}
	if free+len(refs) != s.cfg.capS {
		s.fail(c, "conservation/sector-leak", "%d sectors free + %d referenced by open files != capacity %d", free, len(refs), s.cfg.capS)
	}
}

// ---------------------------------------------------------------------
// Final: destructive differential oracle, from every distinct state
// ---------------------------------------------------------------------

func (s *sys) final(c rep) {
	s.fl.suspend()
	s.lastOp = "close-all"
	for slot, fs := range s.files {
		if fs != nil {
			if err := fs.f.Close(); err != nil {
				c.FailP(prop, "spurious-error/Close", "Close failed without injected fault: %v", err)
				return
			}
			s.files[slot] = nil
		}
	}
	if !debugNoInvariants {
		s.checkConservation(c)
	}
	if c.Failed() {
		return
	}
	if s.cfg.hasQuota() {
		// Exactly maxFiles files, then exactly maxBytes bytes.
		var fsx []filesystem.FileReadWriter
		for i := 0; i < s.cfg.maxFiles; i++ {
			f, err := s.top.NewFile(rpool.ZeroHoleSource, 0)
			if err != nil {
				c.FailP(prop, "conservation/quota-files-after-close", "after closing all files only %d of %d files can be created: %v", i, s.cfg.maxFiles, err)
				return
			}
			fsx = append(fsx, f)
		}
		if f, err := s.top.NewFile(rpool.ZeroHoleSource, 0); err == nil {
			_ = f
			c.FailP(prop, "conservation/quota-files-after-close", "after closing all files more than %d files can be created", s.cfg.maxFiles)
			return
		}
		if err := fsx[0].Truncate(int64(s.cfg.maxBytes)); err != nil {
			c.FailP(prop, "conservation/quota-bytes-after-close", "after closing all files the quota does not accept its maximum of %d bytes: %v", s.cfg.maxBytes, err)
			return
		}
		last := fsx[len(fsx)-1]
		var err error
		if len(fsx) > 1 {
			err = last.Truncate(1)
		} else {
			err = last.Truncate(int64(s.cfg.maxBytes) + 1)
		}
		if err == nil {
			c.FailP(prop, "conservation/quota-bytes-after-close", "after closing all files the quota accepts more than its maximum of %d bytes", s.cfg.maxBytes)
			return
		}
		for _, f := range fsx {
			f.Close()
		}
		if !debugNoInvariants {
			s.checkConservation(c)
		}
		if c.Failed() {
			return
		}
	}
	if s.alloc == nil {
		return
	}
	// Exactly the full capacity can be allocated again, sector by sector...
	want := s.freeCapacity()
	seen := map[uint32]bool{}
	for _, b := range s.ballast {
		seen[b] = true
	}
	var got []uint32
	for len(got) <= want+70 {
		sec, n, err := s.alloc.AllocateContiguous(1)
		if err != nil {
			break
		}
		if n != 1 || sec < 1 || sec > uint32(s.cfg.capS) || seen[sec] {
			c.FailP(prop, "conservation/sector-handed-out-twice", "after closing all files AllocateContiguous(1) returned sector %d (n=%d), which is in use or out of range (capacity %d)", sec, n, s.cfg.capS)
			return
		}
		seen[sec] = true
		got = append(got, sec)
	}
	if len(got) != want {
		c.FailP(prop, "conservation/sectors-after-close", "after closing all files %d sectors can be allocated, capacity is %d", len(got), want)
		return
	}
	s.alloc.FreeList(got)
	// ... and by writing through a file of the block device layer.
	if s.cfg.ballast {
		return
	}
	bp := rpool.NewBlockDeviceBackedFilePool(s.dev, s.alloc, s.cfg.ss)
	f, err := bp.NewFile(rpool.ZeroHoleSource, 0)
	if err != nil {
		return
	}
	total := want * s.cfg.ss
	data := make([]byte, total)
	for i := range data {
		data[i] = 0xff
	}
	n, err := f.WriteAt(data, 0)
	if n != total || err != nil {
		c.FailP(prop, "conservation/bytes-after-close", "after closing all files a write of the full capacity of %d bytes stored %d bytes: %v", total, n, err)
		return
	}
	if n, err := f.WriteAt([]byte{0xff}, int64(total)); err == nil || n != 0 {
		c.FailP(prop, "conservation/bytes-after-close", "after closing all files more than the capacity of %d bytes can be written", total)
		return
	}
	f.Close()
}

// ---------------------------------------------------------------------
// Key: canonical state (tag values renamed in order of first appearance,
// minimum over the two slot orders)
// ---------------------------------------------------------------------

type renamer struct {
	m    [256]byte
	next byte
}

func (r *renamer) put(sb *strings.Builder, bs []byte) {
	const hex = "0123456789abcdef"
	for _, b := range bs {
		v := byte(0)
		if b != 0 {
			if r.m[b] == 0 {
				r.next++
				r.m[b] = r.next
			}
			v = r.m[b]
		}
		sb.WriteByte(hex[v>>4])
		sb.WriteByte(hex[v&15])
	}
}

func (s *sys) dump(order []int) string {
	var sb strings.Builder
	var r renamer
	for _, slot := range order {
		fs := s.files[slot]
		if fs == nil {
			sb.WriteString("-;")
			continue
		}
		sb.WriteString("F")
		r.put(&sb, fs.content)
		if fs.hs != nil {
			n := fs.hs.cur
			if fs.hsLimit > n {
				n = fs.hsLimit
			}
			fmt.Fprintf(&sb, " hs%d/%d:", fs.hs.cur, fs.hsLimit)
			r.put(&sb, fs.hs.vals[:n])
		}
		info := rpool.VerifFileState(fs.f)
		fmt.Fprintf(&sb, " q%v/%d b%v/%d%v", info.HasQuota, info.QuotaSize, info.HasBlock, info.SizeBytes, info.Sectors)
		if fs.baseFile != nil {
			sb.WriteString(" base:")
			r.put(&sb, fs.baseFile.content)
		}
		sb.WriteString(";")
	}
	if s.dev != nil {
		sb.WriteString("dev:")
		r.put(&sb, s.dev.data)
		bm, next, _ := rpool.VerifAllocatorState(s.alloc)
		fmt.Fprintf(&sb, " bm%x next%d", bm, next)
	}
	if s.cfg.hasQuota() {
		fr, br, _ := rpool.VerifQuotaState(s.top)
		fmt.Fprintf(&sb, " quota%d/%d", fr, br)
	}
	fmt.Fprintf(&sb, " faults%d/%v/%v/%d/%v", s.fl.devWriteIn, s.fl.devWriteTorn, s.fl.hs, s.fl.baseIn, s.fl.baseShort)
	return sb.String()
}

func (s *sys) key() string {
	if len(s.files) == 1 {
		return s.dump([]int{0})
	}
	a, b := s.dump([]int{0, 1}), s.dump([]int{1, 0})
	if b < a {
		return b
	}
	return a
}

// ---------------------------------------------------------------------
// Seq construction
// ---------------------------------------------------------------------

func makeSeq(cfg *config) *mc.Seq {
	var ops []mc.SeqOp
	open := func(slot int) func(any) bool {
		return func(st any) bool { return st.(*sys).files[slot] != nil }
	}
	for slot := 0; slot < cfg.slots; slot++ {
		slot := slot
		for _, size := range cfg.newSizes {
			size := size
			ops = append(ops, mc.SeqOp{
				Name:    fmt.Sprintf("f%d=NewFile(%d)", slot, size),
				Enabled: func(st any) bool { return st.(*sys).files[slot] == nil },
				Do:      func(c *mc.SeqCtx, st any) { st.(*sys).doNewFile(c, slot, size) },
			})
		}
	}
	for slot := 0; slot < cfg.slots; slot++ {
		slot := slot
		for _, off := range cfg.woffs {
			for _, n := range cfg.wlens {
				off, n := off, n
				ops = append(ops, mc.SeqOp{
					Name:    fmt.Sprintf("f%d.WriteAt(%d,len%d)", slot, off, n),
					Enabled: open(slot),
					Do:      func(c *mc.SeqCtx, st any) { st.(*sys).doWrite(c, slot, off, n) },
				})
			}
		}
		for _, size := range cfg.truncs {
			size := size
			ops = append(ops, mc.SeqOp{
				Name:    fmt.Sprintf("f%d.Truncate(%d)", slot, size),
				Enabled: open(slot),
				Do:      func(c *mc.SeqCtx, st any) { st.(*sys).doTruncate(c, slot, size) },
			})
		}
		ops = append(ops, mc.SeqOp{
			Name:    fmt.Sprintf("f%d.Close", slot),
			Enabled: open(slot),
			Do:      func(c *mc.SeqCtx, st any) { st.(*sys).doClose(c, slot) },
		})
	}
	unarmed := func(st any) bool { return !st.(*sys).fl.armed() }
	for _, fo := range cfg.faultOps {
		var arm func(fl *faults)
		switch fo {
		case "devW1":
			arm = func(fl *faults) { fl.devWriteIn = 1 }
		case "devW2":
			arm = func(fl *faults) { fl.devWriteIn = 2 }
		case "devWtorn":
			arm = func(fl *faults) { fl.devWriteIn, fl.devWriteTorn = 1, true }
		case "hs":
			arm = func(fl *faults) { fl.hs = true }
		case "base":
			arm = func(fl *faults) { fl.baseIn = 1 }
		case "baseShort":
			arm = func(fl *faults) { fl.baseIn, fl.baseShort = 1, true }
		default:
			panic("unknown fault op " + fo)
		}
		ops = append(ops, mc.SeqOp{
			Name:    "fault:" + fo,
			Enabled: unarmed,
			Do:      func(c *mc.SeqCtx, st any) { arm(st.(*sys).fl) },
		})
	}
	return &mc.Seq{
		Name:  cfg.name,
		Props: []string{prop},
		New: func(c *mc.SeqCtx) any {
			s := newSys(cfg)
			for slot, size := range cfg.preopen {
				s.doNewFile(c, slot, size)
			}
			return s
		},
		Ops:    ops,
		Key:    func(st any) string { return st.(*sys).key() },
		Check:  func(c *mc.SeqCtx, st any) { st.(*sys).check(c) },
		Final:  func(c *mc.SeqCtx, st any) { st.(*sys).final(c) },
		Depth:  cfg.depth,
		Panics: []string{prop},
	}
}
