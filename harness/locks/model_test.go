package locks

import (
	"fmt"
	"math"
	"os"
	"sort"
	"strings"

	"github.com/buildbarn/bb-remote-execution/pkg/filesystem/virtual"
)

// Reference model of one lock table (C20): the offsets that occur in the
// alphabet form a sorted point set p[0] < p[1] < ... < p[n]; because every
// range of the alphabet has both end points in that set, the table is
// described exactly by "which owner holds which lock type" on each of the
// elementary segments [p[k], p[k+1]). This is the per-byte POSIX model,
// quotiented by the bytes that no request can distinguish.

type lockType = virtual.ByteRangeLockType

const (
	tNone   = virtual.ByteRangeLockTypeUnlocked
	tExcl   = virtual.ByteRangeLockTypeLockedExclusive
	tShared = virtual.ByteRangeLockTypeLockedShared
)

const maxOff = uint64(math.MaxUint64)

func typeName(t lockType) string {
	switch t {
	case tNone:
		return "unlock"
	case tExcl:
		return "excl"
	case tShared:
		return "shared"
	}
	return fmt.Sprintf("type(%d)", int(t))
}

func offName(v uint64) string {
	switch {
	case v == maxOff:
		return "max"
	case v > maxOff-16:
		return fmt.Sprintf("max-%d", maxOff-v)
	}
	return fmt.Sprint(v)
}

type model struct {
	points []uint64
	// seg[k][o]: the lock type owner o holds on [points[k], points[k+1]).
	seg [][]lockType
}

func newModel(points []uint64, owners int) *model {
	m := &model{points: points}
	for k := 0; k+1 < len(points); k++ {
		m.seg = append(m.seg, make([]lockType, owners))
	}
	return m
}

func (m *model) pointIndex(v uint64) int {
	for i, p := range m.points {
		if p == v {
			return i
		}
	}
	return -1
}

// conflict returns whether a request of type t by owner o (-1: an owner
// that holds nothing) on segments [i, j) would be denied under POSIX record
// lock semantics: some other owner holds a byte of the range and at least
// one of the two locks is exclusive.
func (m *model) conflict(o, i, j int, t lockType) bool {
	for k := i; k < j; k++ {
		for o2, h := range m.seg[k] {
			if o2 != o && h != tNone && (h == tExcl || t == tExcl) {
				return true
			}
		}
	}
	return false
}

// set replaces what owner o holds on segments [i, j) by t (tNone: unlock).
func (m *model) set(o, i, j int, t lockType) {
	for k := i; k < j; k++ {
		m.seg[k][o] = t
	}
}

func (m *model) holdsAny(o int) bool {
	for k := range m.seg {
		if m.seg[k][o] != tNone {
			return true
		}
	}
	return false
}

// runs returns the number of maximal runs of consecutive segments on which
// owner o holds the same lock type: the number of table entries the owner
// must have if its touching equal-type ranges are merged.
func (m *model) runs(o int) int {
	n := 0
	prev := tNone
	for k := range m.seg {
		h := m.seg[k][o]
		if h != tNone && h != prev {
			n++
		}
		prev = h
	}
	return n
}

func (m *model) appendKey(b []byte) []byte {
	for k := range m.seg {
		for _, h := range m.seg[k] {
			b = append(b, byte('0'+int(h)))
		}
		b = append(b, ' ')
	}
	return b
}

func (m *model) String() string {
	var sb strings.Builder
	for k := range m.seg {
		if k > 0 {
			sb.WriteByte(' ')
		}
		fmt.Fprintf(&sb, "[%s,%s):", offName(m.points[k]), offName(m.points[k+1]))
		for o, h := range m.seg[k] {
			switch h {
			case tNone:
				sb.WriteByte('-')
			case tExcl:
				sb.WriteByte(byte('A' + o))
			case tShared:
				sb.WriteByte(byte('a' + o))
			}
		}
	}
	return sb.String()
}

// entry is one lock table entry with the owner translated to its index.
type entry struct {
	start, end uint64
	owner      int
	typ        lockType
}

func (e entry) String() string {
	o := "?"
	if e.owner >= 0 {
		o = string(rune('A' + e.owner))
	}
	return fmt.Sprintf("%s:%s[%s,%s)", o, typeName(e.typ), offName(e.start), offName(e.end))
}

func entriesString(es []entry) string {
	var l []string
	for _, e := range es {
		l = append(l, e.String())
	}
	return "{" + strings.Join(l, " ") + "}"
}

func convertDump[O comparable](dump []virtual.ByteRangeLock[O], owners []O) []entry {
	es := make([]entry, 0, len(dump))
	for _, l := range dump {
		e := entry{start: l.Start, end: l.End, owner: -1, typ: l.Type}
		for i, o := range owners {
			if o == l.Owner {
				e.owner = i
			}
		}
		es = append(es, e)
	}
	return es
}

func sameEntries(a, b []entry) bool {
	if len(a) != len(b) {
		return false
	}
	for i := range a {
		if a[i] != b[i] {
			return false
		}
	}
	return true
}

type failure struct{ fingerprint, message string }

// compareTable is the state oracle: the entries of the real table (in list
// order) against the model.
//
//   - semantic part (the statement of C20): on every elementary segment every
//     owner holds in the table exactly what it holds in the model
//     ("coverage-extra": the table holds bytes the model does not, e.g. an
//     unlock that did not release or a lock that grew; "coverage-missing": the
//     table lost bytes, e.g. an unlock/replace that released something else;
//     "coverage-type": wrong lock type);
//   - structural part (comments of byte_range_lock_set.go: "entries are sorted
//     by starting address", "all entries describe disjoint non-empty ranges of
//     bytes, except for shared locks with distinct owners", touching or
//     overlapping equal-type entries of one owner get "combined"): sorted by
//     start, non-empty, per-owner disjoint, per-owner merged, list links intact.
func compareTable(es []entry, linksIntact bool, m *model) *failure {
	f := compareTableAll(es, linksIntact, m)
	if f != nil && semanticOnly && strings.HasPrefix(f.fingerprint, "structure/") {
		return nil
	}
	return f
}

// semanticOnly (LOCKS_SEMANTIC_ONLY=1) switches the structural clauses off;
// used only for mutation experiments, to see how much later the purely
// semantic clauses (Test verdicts, coverage) notice a structural defect.
var semanticOnly = os.Getenv("LOCKS_SEMANTIC_ONLY") != ""

func compareTableAll(es []entry, linksIntact bool, m *model) *failure {
	if !linksIntact {
		return &failure{"structure/links", "next/previous pointers of the list disagree: " + entriesString(es)}
	}
	owners := 0
	if len(m.seg) > 0 {
		owners = len(m.seg[0])
	}
	for i, e := range es {
		if e.owner < 0 || e.owner >= owners {
			return &failure{"structure/unknown-owner", fmt.Sprintf("entry %d has an owner no request ever used: %s", i, entriesString(es))}
		}
		if e.typ != tExcl && e.typ != tShared {
			return &failure{"structure/entry-type", fmt.Sprintf("entry %d has type %d: %s", i, int(e.typ), entriesString(es))}
		}
		if e.start >= e.end {
			return &failure{"structure/empty-entry", fmt.Sprintf("entry %d is empty or inverted: %s", i, entriesString(es))}
		}
		if i > 0 && es[i-1].start > e.start {
			return &failure{"structure/unsorted", fmt.Sprintf("entries %d,%d not sorted by start: %s", i-1, i, entriesString(es))}
		}
	}
	// Coverage per segment and owner.
	for k := range m.seg {
		lo, hi := m.points[k], m.points[k+1]
		for o := 0; o < owners; o++ {
			var cover []entry
			for _, e := range es {
				if e.owner == o && e.start < hi && e.end > lo {
					if e.start > lo || e.end < hi {
						return &failure{"coverage-partial", fmt.Sprintf("entry %s covers only part of the elementary segment [%s,%s) (end point that no request ever used); table %s model %s", e, offName(lo), offName(hi), entriesString(es), m)}
					}
					cover = append(cover, e)
				}
			}
			want := m.seg[k][o]
			switch {
			case len(cover) > 1:
				return &failure{"structure/owner-overlap", fmt.Sprintf("owner %c has %d entries covering [%s,%s): table %s model %s", 'A'+o, len(cover), offName(lo), offName(hi), entriesString(es), m)}
			case len(cover) == 1 && want == tNone:
				return &failure{"coverage-extra", fmt.Sprintf("table says owner %c holds %s on [%s,%s), model says it holds nothing there: table %s model %s", 'A'+o, typeName(cover[0].typ), offName(lo), offName(hi), entriesString(es), m)}
			case len(cover) == 0 && want != tNone:
				return &failure{"coverage-missing", fmt.Sprintf("model says owner %c holds %s on [%s,%s), table has no entry for it: table %s model %s", 'A'+o, typeName(want), offName(lo), offName(hi), entriesString(es), m)}
			case len(cover) == 1 && cover[0].typ != want:
				return &failure{"coverage-type", fmt.Sprintf("owner %c on [%s,%s): table %s, model %s: table %s model %s", 'A'+o, offName(lo), offName(hi), typeName(cover[0].typ), typeName(want), entriesString(es), m)}
			}
		}
	}
	// Entries outside all segments cannot exist (all points are in the set and
	// entries are non-empty), so coverage equality plus disjointness leaves
	// only the merging question: one entry per maximal run.
	for o := 0; o < owners; o++ {
		n := 0
		for _, e := range es {
			if e.owner == o {
				n++
			}
		}
		if want := m.runs(o); n != want {
			return &failure{"structure/unmerged", fmt.Sprintf("owner %c has %d entries for %d maximal equal-type runs (touching equal entries not merged): table %s model %s", 'A'+o, n, want, entriesString(es), m)}
		}
	}
	return nil
}

func countOwner(es []entry, o int) int {
	n := 0
	for _, e := range es {
		if e.owner == o {
			n++
		}
	}
	return n
}

// checkConflictingLock validates a lock that Test()/LOCKT/LOCK reported as
// the reason for a denial of a request (owner o, range [start,end), type t):
// it must overlap the request, belong to another owner, one of both must be
// exclusive, and that owner must really hold that lock type on all of the
// reported range according to the model.
func checkConflictingLock(m *model, o int, start, end uint64, t lockType, r entry) string {
	if r.owner == o {
		return "reported conflicting lock belongs to the requesting owner itself"
	}
	if r.owner < 0 {
		return "reported conflicting lock has an unknown owner"
	}
	if !(r.start < end && r.end > start) {
		return "reported conflicting lock does not overlap the requested range"
	}
	if r.typ != tExcl && t != tExcl {
		return "reported conflicting lock is shared and so is the request"
	}
	i, j := m.pointIndex(r.start), m.pointIndex(r.end)
	if i < 0 || j < 0 || i >= j {
		return "reported conflicting lock has end points that no request ever used"
	}
	for k := i; k < j; k++ {
		if m.seg[k][r.owner] != r.typ {
			return fmt.Sprintf("reported conflicting lock is not held: model has %s for that owner on [%s,%s)", typeName(m.seg[k][r.owner]), offName(m.points[k]), offName(m.points[k+1]))
		}
	}
	return ""
}

type rng struct{ i, j int }

func allRanges(points []uint64) []rng {
	var r []rng
	for i := range points {
		for j := i + 1; j < len(points); j++ {
			r = append(r, rng{i, j})
		}
	}
	// Short ranges first ("simplest first").
	sort.SliceStable(r, func(a, b int) bool { return r[a].j-r[a].i < r[b].j-r[b].i })
	return r
}
