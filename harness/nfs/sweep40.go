package nfs

import (
	"fmt"
	"os"

	"verif/mc"

	"github.com/buildbarn/go-xdr/pkg/protocols/nfsv4"
)

// Error-path sweep (Engine A, ONE harness thread, so that every lock of the
// servers is tracked: a thread that parks at a Lock it holds itself is a
// deadlock, a COMPOUND that returns with a lock held is a leak).
//
// After a canned prefix the thread sends ONE malformed / failing / misordered
// request, picked with x.ChooseFree from a catalogue, and then a fixed series
// of well-formed follow-up requests that use every owner of the prefix again.
//
//   - C14: every COMPOUND returns with no lock held (x.CheckNoLocksHeld in
//     world.compound); the follow-up requests terminate (deadlock = violation).
//   - C18: state IDs presented for another file / with another sequence / never
//     issued are refused and leave the leaves alone; the well-formed follow-up
//     requests with the state IDs the client is entitled to succeed; after the
//     client closed everything every leaf is balanced; after expiry no records.
//   - C19: requests with a misordered owner sequence number are answered
//     NFS4ERR_BAD_SEQID and change nothing; sequenced requests that fail are
//     retransmitted (same reply, nothing changes) by the bookkeeper's send().

const longName = "xxxxxxxxxxxxxxxxxxxxxxxxxxxxxxxxxxxxxxxxxxxxxxxxxxxxxxxxxxxxxxxxxxxxxxxxxxxxxxxxxxxxxxxxxxxxxxxxxxxxxxxxxxxxxxxxxxxxxxxxxxxxxxxx" +
	"xxxxxxxxxxxxxxxxxxxxxxxxxxxxxxxxxxxxxxxxxxxxxxxxxxxxxxxxxxxxxxxxxxxxxxxxxxxxxxxxxxxxxxxxxxxxxxxxxxxxxxxxxxxxxxxxxxxxxxxxxxxxxxxx" +
	"xxxxxxxxxxxxxxxxxxxxxxxxxxxxxxxxxxxxxxxxxxxxxxxxxxxxxxxxxxxxxxxxxxxxxxxxxxxxxxxxxxxxxxxxxxxxxxxxxxxxxxxxxxxxxxxxxxxxxxxxxxxxxxxx"

type sweep40 struct {
	w *world
	x *mc.X
	f failer
	c *client40
	// untracked: the "failing" request succeeded in creating or changing
	// state in a way the bookkeeper cannot follow; the strict end-state
	// oracle (balanced after the client closed everything) is skipped,
	// the expiry oracle is not.
	untracked bool
}

type bad40 struct {
	name string
	run  func(e *sweep40) nfsv4.Nfsstat4
}

func (e *sweep40) o1() *owner40 { return e.c.owner("O1") }
func (e *sweep40) a() *open40   { return e.o1().files["a"] }
func (e *sweep40) b() *open40   { return e.o1().files["b"] }
func (e *sweep40) l1() *lock40  { return e.a().locks["L1"] }
func (e *sweep40) o2b() *open40 { return e.c.owner("O2").files["b"] }

// sweepPrefix40: client c1 confirmed; open-owner O1 (confirmed) has a open
// read+write and b open read; lock-owner L1 holds [0,1) of a through O1's
// open; open-owner O2 has b open but has not sent OPEN_CONFIRM; client c2 has
// sent SETCLIENTID only.
func sweepPrefix40(w *world, f failer) {
	c := w.client40("c1")
	c.setclientid(f, 1)
	c.confirm(f)
	c.open(f, "O1", "a", accBoth, howNoCreate, false)
	c.openConfirm(f, "O1", "a")
	c.lock(f, "O1", "a", "L1", rangeB0, false)
	c.open(f, "O1", "b", accRead, howNoCreate, false)
	c.open(f, "O2", "b", accRead, howNoCreate, false)
	w.client40("c2").setclientid(f, 1)
	w.settle(f)
}

// absorb brings the bookkeeper up to date with whatever a request of the
// catalogue achieved.
func (e *sweep40) absorb(res *nfsv4.Compound4res) {
	c := e.c
	_, opens := c.allOpens()
	findOpen := func(other [12]byte) *open40 {
		for _, op := range opens {
			if op.sid.Other == other {
				return op
			}
		}
		return nil
	}
	findLock := func(other [12]byte) *lock40 {
		for _, op := range opens {
			for _, ln := range sortedKeys(op.locks) {
				if op.locks[ln].sid.Other == other {
					return op.locks[ln]
				}
			}
		}
		return nil
	}
	for _, r := range res.Resarray {
		switch v := r.(type) {
		case *nfsv4.NfsResop4_OP_OPEN:
			if ok, is := v.Opopen.(*nfsv4.Open4res_NFS4_OK); is {
				if op := findOpen(ok.Resok4.Stateid.Other); op != nil {
					op.sid = ok.Resok4.Stateid
				} else {
					e.untracked = true
				}
			}
		case *nfsv4.NfsResop4_OP_OPEN_CONFIRM:
			if ok, is := v.OpopenConfirm.(*nfsv4.OpenConfirm4res_NFS4_OK); is {
				if op := findOpen(ok.Resok4.OpenStateid.Other); op != nil {
					op.sid = ok.Resok4.OpenStateid
				} else {
					e.untracked = true
				}
			}
		case *nfsv4.NfsResop4_OP_OPEN_DOWNGRADE:
			if ok, is := v.OpopenDowngrade.(*nfsv4.OpenDowngrade4res_NFS4_OK); is {
				if op := findOpen(ok.Resok4.OpenStateid.Other); op != nil {
					op.sid = ok.Resok4.OpenStateid
				}
				e.untracked = true
			}
		case *nfsv4.NfsResop4_OP_CLOSE:
			if ok, is := v.Opclose.(*nfsv4.Close4res_NFS4_OK); is {
				if op := findOpen(ok.OpenStateid.Other); op != nil {
					op.sid = ok.OpenStateid
					op.valid = false
					for _, ln := range sortedKeys(op.locks) {
						op.locks[ln].valid = false
						c.w.locks.releaseOwner(op.leaf.id, ownerKey(0, c.long, ln))
					}
				}
			}
		case *nfsv4.NfsResop4_OP_LOCK:
			if ok, is := v.Oplock.(*nfsv4.Lock4res_NFS4_OK); is {
				if l := findLock(ok.Resok4.LockStateid.Other); l != nil {
					l.sid = ok.Resok4.LockStateid
				} else {
					e.untracked = true
				}
			}
		case *nfsv4.NfsResop4_OP_LOCKU:
			if ok, is := v.Oplocku.(*nfsv4.Locku4res_NFS4_OK); is {
				if l := findLock(ok.LockStateid.Other); l != nil {
					l.sid = ok.LockStateid
				}
			}
		}
	}
}

// sendSeq sends a sequenced request of open-owner O1 or lock-owner L1 whose
// owner, sequence number and state ID are in order (so that the server
// reaches its argument checks) through the bookkeeper: consumed sequence
// numbers are tracked and, for C19, the misordered / false-retry /
// retransmitted variants are sent around it.
func (e *sweep40) sendSeq(what, kind string, other [12]byte, lockOwner bool, idx int, build func(seq uint32) []nfsv4.NfsArgop4) nfsv4.Nfsstat4 {
	c := e.c
	req := &seqRequest40{what: what, kind: kind, other: other, idx: idx, build: build}
	if lockOwner {
		req.lo, req.tracked = c.lowner("L1"), true
	} else {
		req.oo, req.tracked = e.o1(), c.tracked(e.o1())
	}
	res := c.send(e.f, req)
	e.absorb(res)
	return opStatus(res, idx)
}

// sendRaw sends a request as it is. by names the owner whose sequence number
// (seq) the request carries ("O1", "O2", "L1" or ""); if the reply consumes
// it, the bookkeeper advances. misuse != "": the request presents a state ID
// or sequence number in a way it was not issued for and must be refused
// without touching any leaf.
func (e *sweep40) sendRaw(what, by, kind string, other [12]byte, seq uint32, idx int, misuse string, ops ...nfsv4.NfsArgop4) nfsv4.Nfsstat4 {
	w, c := e.w, e.c
	fsBefore := w.fs.sideEffects()
	snapBefore := ""
	if misuse == "bad-seqid" {
		snapBefore = w.snapshot()
	} else if misuse == "bad-lock-seqid" {
		snapBefore = normLockSeqidProbe(w.snapshot())
	}
	res := w.compound(0, what, ops...)
	st := opStatus(res, idx)
	if idx < len(res.Resarray) && consumed(st) {
		switch by {
		case "O1", "O2":
			if o := c.owner(by); seq == nextSeq(o.seq) {
				o.seq, o.lastKind, o.lastOther = seq, kind, other
			}
		case "L1":
			if l := c.lowner("L1"); seq == nextSeq(l.seq) {
				l.seq, l.lastKind, l.lastOther = seq, kind, other
			}
		}
	}
	if strictMisuse[misuse] {
		if res.Status == nfsv4.NFS4_OK {
			e.f.FailP("C18", "honoured-"+misuse, "%s (%s) succeeded", what, misuse)
		} else if after := w.fs.sideEffects(); after != fsBefore {
			e.f.FailP("C18", "refused-but-changed-"+misuse, "%s (%s) was refused with %d but had side effects: before %s, after %s", what, misuse, st, fsBefore, after)
		}
		if misuse == "bad-seqid" {
			if st != nfsv4.NFS4ERR_BAD_SEQID {
				e.f.FailP("C19", "misordered-accepted/"+kind, "%s with a misordered owner sequence number was answered %d instead of NFS4ERR_BAD_SEQID", what, st)
			}
			if after := w.snapshot(); after != snapBefore {
				e.f.FailP("C19", "misordered-side-effect/"+kind, "%s with a misordered owner sequence number changed state:\n--- before\n%s\n--- after\n%s", what, snapBefore, after)
			}
		}
	}
	if misuse == "bad-lock-seqid" {
		// open_seqid in order, lock_seqid of an existing lock-owner out of
		// order: refused, and nothing but the open-owner's released reply
		// cache and the renewed lease may change.
		if st != nfsv4.NFS4ERR_BAD_SEQID {
			e.f.FailP("C19", "misordered-accepted/"+kind, "%s was answered %d instead of NFS4ERR_BAD_SEQID", what, st)
		}
		if after := normLockSeqidProbe(w.snapshot()); after != snapBefore {
			e.f.FailP("C19", "misordered-side-effect/"+kind, "%s (answered %d) changed state:\n--- before\n%s\n--- after\n%s", what, st, snapBefore, after)
		}
	}
	e.absorb(res)
	return st
}

func rootfh() nfsv4.NfsArgop4 { return &nfsv4.NfsArgop4_OP_PUTROOTFH{} }

func fhRoot40(e *sweep40) []nfsv4.NfsArgop4  { return []nfsv4.NfsArgop4{rootfh()} }
func fhNone40(e *sweep40) []nfsv4.NfsArgop4  { return nil }
func fhA40(e *sweep40) []nfsv4.NfsArgop4     { return []nfsv4.NfsArgop4{putfh(e.a().leaf.handle)} }
func fhB40(e *sweep40) []nfsv4.NfsArgop4     { return []nfsv4.NfsArgop4{putfh(e.b().leaf.handle)} }
func noMut40(e *sweep40, a *nfsv4.Open4args) {}

// strictMisuse: the kinds of misuse whose refusal the property statement
// demands ("state IDs are honoured only for the file, client and sequence
// they were issued for", "completely once the file has been closed",
// "out-of-order sequence numbers are rejected"); success of the other kinds
// of odd requests is only recorded in the outcome.
var strictMisuse = map[string]bool{"never-issued": true, "old-seqid": true, "future-seqid": true, "other-file": true, "closed": true, "bad-seqid": true}

// open40bad: OPEN by O1 with the next sequence number; mut spoils the
// arguments, first replaces the PUTROOTFH in front of it.
func open40bad(name string, firstOf func(e *sweep40) []nfsv4.NfsArgop4, mut func(e *sweep40, a *nfsv4.Open4args)) bad40 {
	return bad40{name: name, run: func(e *sweep40) nfsv4.Nfsstat4 {
		c := e.c
		first := firstOf(e)
		return e.sendSeq(name, "OPEN", [12]byte{}, false, len(first), func(seq uint32) []nfsv4.NfsArgop4 {
			a := nfsv4.Open4args{Seqid: seq, ShareAccess: accRead, ShareDeny: nfsv4.OPEN4_SHARE_DENY_NONE,
				Owner: nfsv4.OpenOwner4{Clientid: c.id, Owner: []byte("O1")}, Openhow: openflag(howNoCreate), Claim: &nfsv4.OpenClaim4_CLAIM_NULL{File: "b"}}
			mut(e, &a)
			return append(append([]nfsv4.NfsArgop4(nil), first...), &nfsv4.NfsArgop4_OP_OPEN{Opopen: a})
		})
	}}
}

func openName40(n string) bad40 {
	show := n
	if len(show) > 8 {
		show = fmt.Sprintf("%s...(%d bytes)", n[:4], len(n))
	}
	return open40bad(fmt.Sprintf("OPEN name %q", show), fhRoot40, func(e *sweep40, a *nfsv4.Open4args) {
		a.Claim = &nfsv4.OpenClaim4_CLAIM_NULL{File: n}
	})
}

// sid variants.
func withSeq(s nfsv4.Stateid4, d int32) nfsv4.Stateid4 {
	s.Seqid = uint32(int32(s.Seqid) + d)
	return s
}

type sidVariant struct {
	name   string
	misuse string
	fh     func(e *sweep40, right *fakeLeaf) []nfsv4.NfsArgop4
	sid    func(e *sweep40, right nfsv4.Stateid4) nfsv4.Stateid4
}

func sameFH(e *sweep40, l *fakeLeaf) []nfsv4.NfsArgop4 { return []nfsv4.NfsArgop4{putfh(l.handle)} }

// sidVariants40: the ways of presenting a wrong state ID (or the right one in
// the wrong place) to an operation that takes one.
func sidVariants40(otherFile string) []sidVariant {
	return []sidVariant{
		{"never-issued state ID", "never-issued", sameFH, func(e *sweep40, s nfsv4.Stateid4) nfsv4.Stateid4 { return foreignSID40() }},
		{"old state ID seqid", "old-seqid", sameFH, func(e *sweep40, s nfsv4.Stateid4) nfsv4.Stateid4 { return withSeq(s, -1) }},
		{"future state ID seqid", "future-seqid", sameFH, func(e *sweep40, s nfsv4.Stateid4) nfsv4.Stateid4 { return withSeq(s, 1) }},
		{"other file's handle", "other-file", func(e *sweep40, l *fakeLeaf) []nfsv4.NfsArgop4 {
			return []nfsv4.NfsArgop4{putfh(e.w.fs.linked[otherFile].handle)}
		}, func(e *sweep40, s nfsv4.Stateid4) nfsv4.Stateid4 { return s }},
		{"no current filehandle", "no-filehandle", func(e *sweep40, l *fakeLeaf) []nfsv4.NfsArgop4 { return nil }, func(e *sweep40, s nfsv4.Stateid4) nfsv4.Stateid4 { return s }},
		{"directory as current filehandle", "directory", func(e *sweep40, l *fakeLeaf) []nfsv4.NfsArgop4 { return []nfsv4.NfsArgop4{rootfh()} }, func(e *sweep40, s nfsv4.Stateid4) nfsv4.Stateid4 { return s }},
	}
}

func catalogue40() []bad40 {
	var out []bad40
	add := func(name string, run func(e *sweep40) nfsv4.Nfsstat4) { out = append(out, bad40{name, run}) }
	root := fhRoot40

	// ---- OPEN: arguments rejected before / instead of the file system ----
	for _, n := range []string{"", ".", "..", "a/b", longName, "zz"} {
		out = append(out, openName40(n))
	}
	out = append(out,
		open40bad("OPEN CLAIM_NULL with a file as current filehandle", fhB40, noMut40),
		open40bad("OPEN without current filehandle", fhNone40, noMut40),
		open40bad("OPEN CLAIM_DELEGATE_CUR", root, func(e *sweep40, a *nfsv4.Open4args) {
			a.Claim = &nfsv4.OpenClaim4_CLAIM_DELEGATE_CUR{DelegateCurInfo: nfsv4.OpenClaimDelegateCur4{DelegateStateid: foreignSID40(), File: "a"}}
		}),
		open40bad("OPEN CLAIM_DELEGATE_PREV", root, func(e *sweep40, a *nfsv4.Open4args) {
			a.Claim = &nfsv4.OpenClaim4_CLAIM_DELEGATE_PREV{FileDelegatePrev: "a"}
		}),
		open40bad("OPEN CLAIM_FH (NFSv4.1 claim type)", root, func(e *sweep40, a *nfsv4.Open4args) { a.Claim = &nfsv4.OpenClaim4_CLAIM_FH{} }),
		open40bad("OPEN CLAIM_PREVIOUS on the root directory", root, func(e *sweep40, a *nfsv4.Open4args) {
			a.Claim = &nfsv4.OpenClaim4_CLAIM_PREVIOUS{DelegateType: nfsv4.OPEN_DELEGATE_NONE}
		}),
		open40bad("OPEN CLAIM_PREVIOUS without current filehandle", fhNone40, func(e *sweep40, a *nfsv4.Open4args) {
			a.Claim = &nfsv4.OpenClaim4_CLAIM_PREVIOUS{DelegateType: nfsv4.OPEN_DELEGATE_NONE}
		}),
		open40bad("OPEN share_deny READ", root, func(e *sweep40, a *nfsv4.Open4args) { a.ShareDeny = nfsv4.OPEN4_SHARE_DENY_READ }),
		open40bad("OPEN share_deny BOTH", root, func(e *sweep40, a *nfsv4.Open4args) { a.ShareDeny = nfsv4.OPEN4_SHARE_DENY_BOTH }),
		open40bad("OPEN share_deny 7 (invalid)", root, func(e *sweep40, a *nfsv4.Open4args) { a.ShareDeny = 7 }),
		open40bad("OPEN share_access 0", root, func(e *sweep40, a *nfsv4.Open4args) { a.ShareAccess = 0 }),
		open40bad("OPEN share_access 8 (invalid)", root, func(e *sweep40, a *nfsv4.Open4args) { a.ShareAccess = 8 }),
		open40bad("OPEN GUARDED of an existing file", root, func(e *sweep40, a *nfsv4.Open4args) { a.Openhow = openflag(howGuarded) }),
		open40bad("OPEN CREATE with an unsupported attribute", root, func(e *sweep40, a *nfsv4.Open4args) {
			a.Openhow = &nfsv4.Openflag4_OPEN4_CREATE{How: &nfsv4.Createhow4_UNCHECKED4{Createattrs: nfsv4.Fattr4{Attrmask: nfsv4.Bitmap4{1 << nfsv4.FATTR4_TYPE}}}}
		}),
		open40bad("OPEN CREATE with truncated attribute values", root, func(e *sweep40, a *nfsv4.Open4args) {
			a.Openhow = &nfsv4.Openflag4_OPEN4_CREATE{How: &nfsv4.Createhow4_GUARDED4{Createattrs: nfsv4.Fattr4{Attrmask: nfsv4.Bitmap4{1 << nfsv4.FATTR4_SIZE}, AttrVals: []byte{0, 0}}}}
		}),
		open40bad("OPEN CREATE EXCLUSIVE4_1 (NFSv4.1 create mode)", root, func(e *sweep40, a *nfsv4.Open4args) {
			a.Openhow = &nfsv4.Openflag4_OPEN4_CREATE{How: &nfsv4.Createhow4_EXCLUSIVE4_1{}}
		}),
	)
	add("OPEN CLAIM_PREVIOUS with a delegation type", func(e *sweep40) nfsv4.Nfsstat4 {
		return open40bad("OPEN CLAIM_PREVIOUS with a delegation type", fhA40, func(e *sweep40, a *nfsv4.Open4args) {
			a.Claim = &nfsv4.OpenClaim4_CLAIM_PREVIOUS{DelegateType: nfsv4.OPEN_DELEGATE_READ}
		}).run(e)
	})
	add("OPEN CLAIM_PREVIOUS + CREATE GUARDED", func(e *sweep40) nfsv4.Nfsstat4 {
		return open40bad("OPEN CLAIM_PREVIOUS + CREATE GUARDED", fhA40, func(e *sweep40, a *nfsv4.Open4args) {
			a.Claim = &nfsv4.OpenClaim4_CLAIM_PREVIOUS{DelegateType: nfsv4.OPEN_DELEGATE_NONE}
			a.Openhow = openflag(howGuarded)
		}).run(e)
	})
	// OPEN by somebody the server does not know, or with a wrong number.
	openBy := func(name, owner, by string, misuse string, id func(e *sweep40) uint64, seq func(e *sweep40) uint32) {
		add(name, func(e *sweep40) nfsv4.Nfsstat4 {
			s := seq(e)
			return e.sendRaw(name, by, "OPEN", [12]byte{}, s, 1, misuse, rootfh(), &nfsv4.NfsArgop4_OP_OPEN{Opopen: nfsv4.Open4args{
				Seqid: s, ShareAccess: accRead, ShareDeny: nfsv4.OPEN4_SHARE_DENY_NONE,
				Owner: nfsv4.OpenOwner4{Clientid: id(e), Owner: []byte(owner)}, Openhow: openflag(howNoCreate), Claim: &nfsv4.OpenClaim4_CLAIM_NULL{File: "b"}}})
		})
	}
	c1 := func(e *sweep40) uint64 { return e.c.id }
	openBy("OPEN with an unknown client ID", "O1", "", "", func(e *sweep40) uint64 { return 0xdead }, func(e *sweep40) uint32 { return 1 })
	openBy("OPEN with an unconfirmed client ID", "O1", "", "", func(e *sweep40) uint64 { return e.w.client40("c2").pendID }, func(e *sweep40) uint32 { return 1 })
	openBy("OPEN with owner seqid next+1", "O1", "O1", "bad-seqid", c1, func(e *sweep40) uint32 { return nextSeq(nextSeq(e.o1().seq)) })
	openBy("OPEN with owner seqid last-1", "O1", "O1", "bad-seqid", c1, func(e *sweep40) uint32 { return e.o1().seq - 1 })
	add("OPEN by the unconfirmed open-owner O2 (discards its unconfirmed open)", func(e *sweep40) nfsv4.Nfsstat4 {
		return e.c.open(e.f, "O2", "a", accRead, howNoCreate, false)
	})
	add("OPEN by a new open-owner that fails (NOENT)", func(e *sweep40) nfsv4.Nfsstat4 {
		return e.c.open(e.f, "O3", "zz", accRead, howNoCreate, false)
	})

	// ---- operations that take an open state ID and an owner seqid ----
	type seqOp struct {
		name string
		kind string
		op   func(seq uint32, sid nfsv4.Stateid4) nfsv4.NfsArgop4
	}
	seqOps := []seqOp{
		{"OPEN_CONFIRM", "OPEN_CONFIRM", func(seq uint32, sid nfsv4.Stateid4) nfsv4.NfsArgop4 {
			return &nfsv4.NfsArgop4_OP_OPEN_CONFIRM{OpopenConfirm: nfsv4.OpenConfirm4args{OpenStateid: sid, Seqid: seq}}
		}},
		{"CLOSE", "CLOSE", func(seq uint32, sid nfsv4.Stateid4) nfsv4.NfsArgop4 {
			return &nfsv4.NfsArgop4_OP_CLOSE{Opclose: nfsv4.Close4args{Seqid: seq, OpenStateid: sid}}
		}},
		{"OPEN_DOWNGRADE", "OPEN_DOWNGRADE", func(seq uint32, sid nfsv4.Stateid4) nfsv4.NfsArgop4 {
			return &nfsv4.NfsArgop4_OP_OPEN_DOWNGRADE{OpopenDowngrade: nfsv4.OpenDowngrade4args{OpenStateid: sid, Seqid: seq, ShareAccess: accRead}}
		}},
		{"LOCK(new lock-owner)", "LOCK", func(seq uint32, sid nfsv4.Stateid4) nfsv4.NfsArgop4 {
			return &nfsv4.NfsArgop4_OP_LOCK{Oplock: nfsv4.Lock4args{Locktype: nfsv4.WRITE_LT, Offset: 4, Length: 1,
				Locker: &nfsv4.Locker4_TRUE{OpenOwner: nfsv4.OpenToLockOwner4{OpenSeqid: seq, OpenStateid: sid, LockSeqid: 1,
					LockOwner: nfsv4.LockOwner4{Clientid: 0, Owner: []byte("L9")}}}}}
		}},
	}
	for _, so := range seqOps {
		so := so
		for _, v := range sidVariants40("b") {
			v := v
			name := fmt.Sprintf("%s with %s", so.name, v.name)
			add(name, func(e *sweep40) nfsv4.Nfsstat4 {
				a := e.a()
				seq := nextSeq(e.o1().seq)
				sid := v.sid(e, a.sid)
				fh := v.fh(e, a.leaf)
				op := so.op(seq, sid)
				if l, is := op.(*nfsv4.NfsArgop4_OP_LOCK); is {
					l.Oplock.Locker.(*nfsv4.Locker4_TRUE).OpenOwner.LockOwner.Clientid = e.c.id
				}
				return e.sendRaw(name, "O1", so.kind, sid.Other, seq, len(fh), v.misuse, append(fh, op)...)
			})
		}
		for _, d := range []struct {
			name string
			seq  func(o *owner40) uint32
		}{{"owner seqid next+1", func(o *owner40) uint32 { return nextSeq(nextSeq(o.seq)) }}, {"owner seqid last-1", func(o *owner40) uint32 { return o.seq - 1 }}} {
			d := d
			name := fmt.Sprintf("%s with %s", so.name, d.name)
			add(name, func(e *sweep40) nfsv4.Nfsstat4 {
				a := e.a()
				seq := d.seq(e.o1())
				op := so.op(seq, a.sid)
				if l, is := op.(*nfsv4.NfsArgop4_OP_LOCK); is {
					l.Oplock.Locker.(*nfsv4.Locker4_TRUE).OpenOwner.LockOwner.Clientid = e.c.id
				}
				return e.sendRaw(name, "O1", so.kind, a.sid.Other, seq, 1, "bad-seqid", putfh(a.leaf.handle), op)
			})
		}
		// ... with a special state ID, a lock state ID and the state ID
		// of the open-owner that has not confirmed yet.
		for _, alt := range []struct {
			name string
			sid  func(e *sweep40) nfsv4.Stateid4
			leaf func(e *sweep40) *fakeLeaf
			by   string
		}{
			{"the anonymous state ID", func(e *sweep40) nfsv4.Stateid4 { return anonymousSID }, func(e *sweep40) *fakeLeaf { return e.a().leaf }, "O1"},
			{"a lock state ID", func(e *sweep40) nfsv4.Stateid4 { return e.l1().sid }, func(e *sweep40) *fakeLeaf { return e.a().leaf }, "O1"},
		} {
			alt := alt
			name := fmt.Sprintf("%s with %s", so.name, alt.name)
			add(name, func(e *sweep40) nfsv4.Nfsstat4 {
				seq := nextSeq(e.o1().seq)
				sid := alt.sid(e)
				op := so.op(seq, sid)
				if l, is := op.(*nfsv4.NfsArgop4_OP_LOCK); is {
					l.Oplock.Locker.(*nfsv4.Locker4_TRUE).OpenOwner.LockOwner.Clientid = e.c.id
				}
				return e.sendRaw(name, alt.by, so.kind, sid.Other, seq, 1, "wrong-kind", putfh(alt.leaf(e).handle), op)
			})
		}
		if so.kind != "OPEN_CONFIRM" {
			name := fmt.Sprintf("%s through the unconfirmed open-owner O2", so.name)
			add(name, func(e *sweep40) nfsv4.Nfsstat4 {
				o2 := e.c.owner("O2")
				seq := nextSeq(o2.seq)
				op := so.op(seq, e.o2b().sid)
				if l, is := op.(*nfsv4.NfsArgop4_OP_LOCK); is {
					l.Oplock.Locker.(*nfsv4.Locker4_TRUE).OpenOwner.LockOwner.Clientid = e.c.id
				}
				return e.sendRaw(name, "O2", so.kind, e.o2b().sid.Other, seq, 1, "unconfirmed-owner", putfh(e.o2b().leaf.handle), op)
			})
		}
	}
	// Wrong order.
	add("OPEN_CONFIRM of an already confirmed open (twice)", func(e *sweep40) nfsv4.Nfsstat4 {
		a := e.a()
		sid := a.sid
		return e.sendSeq("OPEN_CONFIRM(again)", "OPEN_CONFIRM", sid.Other, false, 1, func(seq uint32) []nfsv4.NfsArgop4 {
			return []nfsv4.NfsArgop4{putfh(a.leaf.handle), &nfsv4.NfsArgop4_OP_OPEN_CONFIRM{OpopenConfirm: nfsv4.OpenConfirm4args{OpenStateid: sid, Seqid: seq}}}
		})
	})
	add("CLOSE twice", func(e *sweep40) nfsv4.Nfsstat4 {
		a := e.a()
		if st := e.c.close(e.f, "O1", a); st != nfsv4.NFS4_OK {
			return st
		}
		seq := nextSeq(e.o1().seq)
		return e.sendRaw("CLOSE(again)", "O1", "CLOSE", a.sid.Other, seq, 1, "closed", putfh(a.leaf.handle), &nfsv4.NfsArgop4_OP_CLOSE{Opclose: nfsv4.Close4args{Seqid: seq, OpenStateid: a.sid}})
	})
	add("CLOSE, then READ / LOCKU / LOCK with the closed state IDs", func(e *sweep40) nfsv4.Nfsstat4 {
		a, l := e.a(), e.l1()
		lsid := l.sid
		if st := e.c.close(e.f, "O1", a); st != nfsv4.NFS4_OK {
			return st
		}
		e.sendRaw("READ(closed state ID)", "", "", [12]byte{}, 0, 1, "closed", putfh(a.leaf.handle), ioOp(ioRead, a.sid))
		e.sendRaw("WRITE(lock state ID of a closed file)", "", "", [12]byte{}, 0, 1, "closed", putfh(a.leaf.handle), ioOp(ioWrite, lsid))
		lseq := nextSeq(e.c.lowner("L1").seq)
		return e.sendRaw("LOCKU(lock state ID of a closed file)", "L1", "LOCKU", lsid.Other, lseq, 1, "closed", putfh(a.leaf.handle),
			&nfsv4.NfsArgop4_OP_LOCKU{Oplocku: nfsv4.Locku4args{Locktype: nfsv4.WRITE_LT, Seqid: lseq, LockStateid: lsid, Offset: 0, Length: 1}})
	})
	add("OPEN_DOWNGRADE to access the open does not have", func(e *sweep40) nfsv4.Nfsstat4 {
		b := e.b()
		sid := b.sid
		return e.sendSeq("OPEN_DOWNGRADE(b,write)", "OPEN_DOWNGRADE", sid.Other, false, 1, func(seq uint32) []nfsv4.NfsArgop4 {
			return []nfsv4.NfsArgop4{putfh(b.leaf.handle), &nfsv4.NfsArgop4_OP_OPEN_DOWNGRADE{OpopenDowngrade: nfsv4.OpenDowngrade4args{OpenStateid: sid, Seqid: seq, ShareAccess: accWrite}}}
		})
	})
	for _, v := range []struct {
		name         string
		access, deny uint32
	}{{"share_access 0", 0, 0}, {"share_access 8", 8, 0}, {"share_deny READ", accRead, nfsv4.OPEN4_SHARE_DENY_READ}} {
		v := v
		add("OPEN_DOWNGRADE with "+v.name, func(e *sweep40) nfsv4.Nfsstat4 {
			a := e.a()
			sid := a.sid
			return e.sendSeq("OPEN_DOWNGRADE("+v.name+")", "OPEN_DOWNGRADE", sid.Other, false, 1, func(seq uint32) []nfsv4.NfsArgop4 {
				return []nfsv4.NfsArgop4{putfh(a.leaf.handle), &nfsv4.NfsArgop4_OP_OPEN_DOWNGRADE{OpopenDowngrade: nfsv4.OpenDowngrade4args{OpenStateid: sid, Seqid: seq, ShareAccess: v.access, ShareDeny: v.deny}}}
			})
		})
	}

	// ---- LOCK through the open state ID (new lock-owner form) ----
	lockNew := func(name, lowner string, r lockRange, shared bool, clientid func(e *sweep40) uint64, lseq uint32) {
		add(name, func(e *sweep40) nfsv4.Nfsstat4 {
			a := e.a()
			sid := a.sid
			return e.sendSeq(name, "LOCK", [12]byte{}, false, 1, func(seq uint32) []nfsv4.NfsArgop4 {
				return []nfsv4.NfsArgop4{putfh(a.leaf.handle), &nfsv4.NfsArgop4_OP_LOCK{Oplock: nfsv4.Lock4args{Locktype: lockType(shared), Offset: r.offset, Length: r.length,
					Locker: &nfsv4.Locker4_TRUE{OpenOwner: nfsv4.OpenToLockOwner4{OpenSeqid: seq, OpenStateid: sid, LockSeqid: lseq,
						LockOwner: nfsv4.LockOwner4{Clientid: clientid(e), Owner: []byte(lowner)}}}}}}
			})
		})
	}
	lockNew("LOCK by a new lock-owner with an empty range", "L2", rangeZero, false, c1, 1)
	lockNew("LOCK by a new lock-owner with an overflowing range", "L2", rangeOvfl, false, c1, 1)
	lockNew("LOCK by a new lock-owner that is denied", "L2", rangeB0, false, c1, 1)
	lockNew("LOCK new-lock-owner form by L1, which already has lock state here", "L1", rangeB1, false, c1, 7)
	lockNew("LOCK with a lock-owner of another client", "L2", rangeB1, false, func(e *sweep40) uint64 { return e.w.client40("c2").pendID }, 1)
	add("LOCK with an invalid locker discriminant", func(e *sweep40) nfsv4.Nfsstat4 {
		return e.sendRaw("LOCK(no locker)", "", "LOCK", [12]byte{}, 0, 1, "", putfh(e.a().leaf.handle), &nfsv4.NfsArgop4_OP_LOCK{Oplock: nfsv4.Lock4args{Locktype: nfsv4.WRITE_LT, Offset: 0, Length: 1}})
	})
	// The lock-owner's OWN sequence number inside open_to_lock_owner4:
	// L1 exists (it holds a lock on a), the request goes through O1's open
	// of the OTHER file b, so the server has to find the lock-owner and
	// check lock_seqid against its sequence.
	for _, d := range []struct {
		name string
		seq  func(l *lowner40) uint32
	}{
		{"next+1", func(l *lowner40) uint32 { return nextSeq(nextSeq(l.seq)) }},
		{"last-1", func(l *lowner40) uint32 { return l.seq - 1 }},
		{"last+76", func(l *lowner40) uint32 { return l.seq + 76 }},
	} {
		d := d
		name := "LOCK open_to_lock_owner4 on b by L1 (exists through a) with lock_seqid " + d.name
		add(name, func(e *sweep40) nfsv4.Nfsstat4 {
			b := e.b()
			seq := nextSeq(e.o1().seq)
			return e.sendRaw(name, "O1", "LOCK", [12]byte{}, seq, 1, "bad-lock-seqid", putfh(b.leaf.handle), &nfsv4.NfsArgop4_OP_LOCK{Oplock: nfsv4.Lock4args{Locktype: nfsv4.READ_LT, Offset: 1, Length: 1,
				Locker: &nfsv4.Locker4_TRUE{OpenOwner: nfsv4.OpenToLockOwner4{OpenSeqid: seq, OpenStateid: b.sid, LockSeqid: d.seq(e.c.lowner("L1")),
					LockOwner: nfsv4.LockOwner4{Clientid: e.c.id, Owner: []byte("L1")}}}}})
		})
	}
	add("LOCK open_to_lock_owner4 on b by L1 (exists through a) with the next lock_seqid", func(e *sweep40) nfsv4.Nfsstat4 {
		st := e.c.lock(e.f, "O1", "b", "L1", rangeB1, true)
		if st != nfsv4.NFS4_OK {
			failBoth(e.f, "sweep/follow-up-refused/LOCK", "NFSv4.0: the well-formed LOCK of b by the existing lock-owner L1 through open-owner O1 (next open_seqid, next lock_seqid) was answered %d", st)
		}
		return st
	})

	// ---- LOCK / LOCKU through the lock state ID ----
	type lockOp struct {
		name, kind string
		op         func(seq uint32, sid nfsv4.Stateid4, r lockRange) nfsv4.NfsArgop4
	}
	lockOps := []lockOp{
		{"LOCK(existing lock-owner)", "LOCK", func(seq uint32, sid nfsv4.Stateid4, r lockRange) nfsv4.NfsArgop4 {
			return &nfsv4.NfsArgop4_OP_LOCK{Oplock: nfsv4.Lock4args{Locktype: nfsv4.WRITE_LT, Offset: r.offset, Length: r.length,
				Locker: &nfsv4.Locker4_FALSE{LockOwner: nfsv4.ExistLockOwner4{LockStateid: sid, LockSeqid: seq}}}}
		}},
		{"LOCKU", "LOCKU", func(seq uint32, sid nfsv4.Stateid4, r lockRange) nfsv4.NfsArgop4 {
			return &nfsv4.NfsArgop4_OP_LOCKU{Oplocku: nfsv4.Locku4args{Locktype: nfsv4.WRITE_LT, Seqid: seq, LockStateid: sid, Offset: r.offset, Length: r.length}}
		}},
	}
	for _, lo := range lockOps {
		lo := lo
		for _, v := range sidVariants40("b") {
			v := v
			name := fmt.Sprintf("%s with %s", lo.name, v.name)
			add(name, func(e *sweep40) nfsv4.Nfsstat4 {
				seq := nextSeq(e.c.lowner("L1").seq)
				sid := v.sid(e, e.l1().sid)
				fh := v.fh(e, e.a().leaf)
				return e.sendRaw(name, "L1", lo.kind, sid.Other, seq, len(fh), v.misuse, append(fh, lo.op(seq, sid, rangeB1))...)
			})
		}
		for _, d := range []struct {
			name string
			seq  func(l *lowner40) uint32
		}{{"lock-owner seqid next+1", func(l *lowner40) uint32 { return nextSeq(nextSeq(l.seq)) }}, {"lock-owner seqid last-1", func(l *lowner40) uint32 { return l.seq - 1 }}} {
			d := d
			name := fmt.Sprintf("%s with %s", lo.name, d.name)
			add(name, func(e *sweep40) nfsv4.Nfsstat4 {
				seq := d.seq(e.c.lowner("L1"))
				sid := e.l1().sid
				return e.sendRaw(name, "L1", lo.kind, sid.Other, seq, 1, "bad-seqid", putfh(e.a().leaf.handle), lo.op(seq, sid, rangeB1))
			})
		}
		name := lo.name + " with an open state ID"
		add(name, func(e *sweep40) nfsv4.Nfsstat4 {
			seq := nextSeq(e.c.lowner("L1").seq)
			sid := e.a().sid
			return e.sendRaw(name, "L1", lo.kind, sid.Other, seq, 1, "wrong-kind", putfh(e.a().leaf.handle), lo.op(seq, sid, rangeB1))
		})
		for _, r := range []lockRange{rangeZero, rangeOvfl} {
			r := r
			name := fmt.Sprintf("%s with range %s", lo.name, r.name)
			add(name, func(e *sweep40) nfsv4.Nfsstat4 {
				sid := e.l1().sid
				return e.sendSeq(name, lo.kind, sid.Other, true, 1, func(seq uint32) []nfsv4.NfsArgop4 {
					return []nfsv4.NfsArgop4{putfh(e.a().leaf.handle), lo.op(seq, sid, r)}
				})
			})
		}
	}
	add("LOCKU of a range that is not locked", func(e *sweep40) nfsv4.Nfsstat4 {
		return e.c.locku(e.f, "O1", "a", "L1", rangeB1)
	})

	// ---- LOCKT, RELEASE_LOCKOWNER, RENEW, SETCLIENTID_CONFIRM ----
	lockt := func(name string, fh func(e *sweep40) []nfsv4.NfsArgop4, id func(e *sweep40) uint64, r lockRange) {
		add(name, func(e *sweep40) nfsv4.Nfsstat4 {
			ops := fh(e)
			return e.sendRaw(name, "", "", [12]byte{}, 0, len(ops), "", append(ops, &nfsv4.NfsArgop4_OP_LOCKT{Oplockt: nfsv4.Lockt4args{
				Locktype: nfsv4.WRITE_LT, Offset: r.offset, Length: r.length, Owner: nfsv4.LockOwner4{Clientid: id(e), Owner: []byte("L2")}}})...)
		})
	}
	fhA := fhA40
	lockt("LOCKT without current filehandle", func(e *sweep40) []nfsv4.NfsArgop4 { return nil }, c1, rangeB0)
	lockt("LOCKT on a directory", func(e *sweep40) []nfsv4.NfsArgop4 { return []nfsv4.NfsArgop4{rootfh()} }, c1, rangeB0)
	lockt("LOCKT with an unknown client ID", fhA, func(e *sweep40) uint64 { return 0xdead }, rangeB0)
	lockt("LOCKT with an unconfirmed client ID", fhA, func(e *sweep40) uint64 { return e.w.client40("c2").pendID }, rangeB0)
	lockt("LOCKT with an empty range", fhA, c1, rangeZero)
	lockt("LOCKT with an overflowing range", fhA, c1, rangeOvfl)
	lockt("LOCKT that is denied", fhA, c1, rangeB0)
	release := func(name, lowner string, id func(e *sweep40) uint64) {
		add(name, func(e *sweep40) nfsv4.Nfsstat4 {
			return e.sendRaw(name, "", "", [12]byte{}, 0, 0, "", &nfsv4.NfsArgop4_OP_RELEASE_LOCKOWNER{OpreleaseLockowner: nfsv4.ReleaseLockowner4args{LockOwner: nfsv4.LockOwner4{Clientid: id(e), Owner: []byte(lowner)}}})
		})
	}
	release("RELEASE_LOCKOWNER with locks held", "L1", c1)
	release("RELEASE_LOCKOWNER of an unknown lock-owner", "L7", c1)
	release("RELEASE_LOCKOWNER with an unknown client ID", "L1", func(e *sweep40) uint64 { return 0xdead })
	add("RENEW with an unknown client ID", func(e *sweep40) nfsv4.Nfsstat4 {
		return e.sendRaw("RENEW(unknown)", "", "", [12]byte{}, 0, 0, "", &nfsv4.NfsArgop4_OP_RENEW{Oprenew: nfsv4.Renew4args{Clientid: 0xdead}})
	})
	add("RENEW with an unconfirmed client ID", func(e *sweep40) nfsv4.Nfsstat4 {
		return e.sendRaw("RENEW(unconfirmed)", "", "", [12]byte{}, 0, 0, "", &nfsv4.NfsArgop4_OP_RENEW{Oprenew: nfsv4.Renew4args{Clientid: e.w.client40("c2").pendID}})
	})
	add("SETCLIENTID_CONFIRM with an unknown client ID", func(e *sweep40) nfsv4.Nfsstat4 {
		return e.sendRaw("SETCLIENTID_CONFIRM(unknown)", "", "", [12]byte{}, 0, 0, "", &nfsv4.NfsArgop4_OP_SETCLIENTID_CONFIRM{OpsetclientidConfirm: nfsv4.SetclientidConfirm4args{Clientid: 0xdead}})
	})
	add("SETCLIENTID_CONFIRM with a wrong verifier", func(e *sweep40) nfsv4.Nfsstat4 {
		return e.sendRaw("SETCLIENTID_CONFIRM(wrong verifier)", "", "", [12]byte{}, 0, 0, "", &nfsv4.NfsArgop4_OP_SETCLIENTID_CONFIRM{OpsetclientidConfirm: nfsv4.SetclientidConfirm4args{Clientid: e.w.client40("c2").pendID, SetclientidConfirm: nfsv4.Verifier4{9, 9}}})
	})
	add("SETCLIENTID_CONFIRM of the confirmed record again", func(e *sweep40) nfsv4.Nfsstat4 {
		return e.sendRaw("SETCLIENTID_CONFIRM(again)", "", "", [12]byte{}, 0, 0, "", &nfsv4.NfsArgop4_OP_SETCLIENTID_CONFIRM{OpsetclientidConfirm: nfsv4.SetclientidConfirm4args{Clientid: e.c.id, SetclientidConfirm: e.c.pendConf}})
	})

	// ---- READ / WRITE / SETATTR ----
	for _, k := range []ioKind{ioRead, ioWrite, ioSetattr} {
		k := k
		for _, v := range sidVariants40("b") {
			v := v
			for _, which := range []string{"open", "lock"} {
				which := which
				if which == "lock" && k == ioSetattr {
					continue
				}
				name := fmt.Sprintf("%s with %s (%s state ID)", k, v.name, which)
				add(name, func(e *sweep40) nfsv4.Nfsstat4 {
					right := e.a().sid
					if which == "lock" {
						right = e.l1().sid
					}
					fh := v.fh(e, e.a().leaf)
					return e.sendRaw(name, "", "", [12]byte{}, 0, len(fh), v.misuse, append(fh, ioOp(k, v.sid(e, right)))...)
				})
			}
		}
		name := fmt.Sprintf("%s with the state ID of the unconfirmed open-owner O2", k)
		add(name, func(e *sweep40) nfsv4.Nfsstat4 {
			return e.sendRaw(name, "", "", [12]byte{}, 0, 1, "unconfirmed-owner", putfh(e.o2b().leaf.handle), ioOp(k, e.o2b().sid))
		})
		name2 := fmt.Sprintf("%s with a special state ID whose seqid is not special", k)
		add(name2, func(e *sweep40) nfsv4.Nfsstat4 {
			return e.sendRaw(name2, "", "", [12]byte{}, 0, 1, "", putfh(e.a().leaf.handle), ioOp(k, nfsv4.Stateid4{Seqid: 5}))
		})
		name3 := fmt.Sprintf("%s with the anonymous state ID on a directory", k)
		add(name3, func(e *sweep40) nfsv4.Nfsstat4 {
			return e.sendRaw(name3, "", "", [12]byte{}, 0, 1, "", rootfh(), ioOp(k, anonymousSID))
		})
	}
	add("WRITE through an open that is read-only", func(e *sweep40) nfsv4.Nfsstat4 {
		return e.sendRaw("WRITE(read-only open)", "", "", [12]byte{}, 0, 1, "open-mode", putfh(e.b().leaf.handle), ioOp(ioWrite, e.b().sid))
	})
	add("SETATTR with a valid state ID and an unsupported attribute", func(e *sweep40) nfsv4.Nfsstat4 {
		return e.sendRaw("SETATTR(unsupported attribute)", "", "", [12]byte{}, 0, 1, "", putfh(e.a().leaf.handle), &nfsv4.NfsArgop4_OP_SETATTR{Opsetattr: nfsv4.Setattr4args{Stateid: e.a().sid, ObjAttributes: nfsv4.Fattr4{Attrmask: nfsv4.Bitmap4{1 << nfsv4.FATTR4_TYPE}}}})
	})
	add("SETATTR with a valid state ID and truncated attribute values", func(e *sweep40) nfsv4.Nfsstat4 {
		return e.sendRaw("SETATTR(truncated)", "", "", [12]byte{}, 0, 1, "", putfh(e.a().leaf.handle), &nfsv4.NfsArgop4_OP_SETATTR{Opsetattr: nfsv4.Setattr4args{Stateid: e.a().sid, ObjAttributes: nfsv4.Fattr4{Attrmask: nfsv4.Bitmap4{1 << nfsv4.FATTR4_SIZE}, AttrVals: []byte{1}}}})
	})

	// ---- stateless operations and the COMPOUND itself ----
	misc := func(name string, idx int, ops ...nfsv4.NfsArgop4) {
		add(name, func(e *sweep40) nfsv4.Nfsstat4 { return e.sendRaw(name, "", "", [12]byte{}, 0, idx, "", ops...) })
	}
	misc("PUTFH of a handle nobody knows", 0, putfh([]byte("FH:nothing#9")))
	misc("GETFH without current filehandle", 0, &nfsv4.NfsArgop4_OP_GETFH{})
	misc("RESTOREFH without saved filehandle", 0, &nfsv4.NfsArgop4_OP_RESTOREFH{})
	misc("SAVEFH without current filehandle", 0, &nfsv4.NfsArgop4_OP_SAVEFH{})
	misc("LOOKUP of an empty name", 1, rootfh(), &nfsv4.NfsArgop4_OP_LOOKUP{Oplookup: nfsv4.Lookup4args{Objname: ""}})
	misc("LOOKUP of ..", 1, rootfh(), &nfsv4.NfsArgop4_OP_LOOKUP{Oplookup: nfsv4.Lookup4args{Objname: ".."}})
	misc("LOOKUP of a missing file", 1, rootfh(), &nfsv4.NfsArgop4_OP_LOOKUP{Oplookup: nfsv4.Lookup4args{Objname: "zz"}})
	misc("REMOVE of an empty name", 1, rootfh(), &nfsv4.NfsArgop4_OP_REMOVE{Opremove: nfsv4.Remove4args{Target: ""}})
	misc("REMOVE of a missing file", 1, rootfh(), &nfsv4.NfsArgop4_OP_REMOVE{Opremove: nfsv4.Remove4args{Target: "zz"}})
	misc("RENAME without saved filehandle", 1, rootfh(), &nfsv4.NfsArgop4_OP_RENAME{Oprename: nfsv4.Rename4args{Oldname: "a", Newname: "c"}})
	misc("SECINFO of a/b", 1, rootfh(), &nfsv4.NfsArgop4_OP_SECINFO{Opsecinfo: nfsv4.Secinfo4args{Name: "a/b"}})
	misc("COMMIT on a directory", 1, rootfh(), &nfsv4.NfsArgop4_OP_COMMIT{})
	misc("READLINK on a directory", 1, rootfh(), &nfsv4.NfsArgop4_OP_READLINK{})
	misc("an illegal operation", 0, &nfsv4.NfsArgop4_OP_ILLEGAL{})
	misc("an NFSv4.1 operation (SEQUENCE) sent to the NFSv4.0 server", 0, &nfsv4.NfsArgop4_OP_SEQUENCE{})
	misc("an empty COMPOUND", 0)
	add("a COMPOUND with the wrong minor version", func(e *sweep40) nfsv4.Nfsstat4 {
		res, err := e.w.p40.NfsV4Nfsproc4Compound(ctx, &nfsv4.Compound4args{Tag: "t", Minorversion: 7, Argarray: []nfsv4.NfsArgop4{rootfh()}})
		if err != nil {
			panic(err)
		}
		e.x.CheckNoLocksHeld("COMPOUND(minor version 7)")
		return res.Status
	})
	add("REMOVE of an open file, then the follow-up through its handle", func(e *sweep40) nfsv4.Nfsstat4 {
		return e.sendRaw("REMOVE(a)", "", "", [12]byte{}, 0, 1, "", rootfh(), &nfsv4.NfsArgop4_OP_REMOVE{Opremove: nfsv4.Remove4args{Target: "a"}})
	})
	return out
}

// followUp40: well-formed requests that use the client, both open-owners and
// the lock-owner again, then the client closes everything.
func (e *sweep40) followUp() {
	w, c, f := e.w, e.c, e.f
	w.settle(f)
	c.renewOp(f)
	o1 := e.o1()
	if a := e.a(); a.valid && !a.gone {
		bits := uint32(0)
		if c.entitled(o1, a) {
			bits = a.bits
		}
		c.io(f, ioRead, a.leaf, a.sid, bits, true)
	}
	entitled := c.haveID && c.alive && o1.confirmed
	if st := c.open(f, "O1", "b", accRead, howNoCreate, false); st != nfsv4.NFS4_OK && entitled {
		failBoth(f, "sweep/follow-up-refused/OPEN", "NFSv4.0: the well-formed OPEN of b by the confirmed open-owner O1 (next sequence number %d) after the failing request was answered %d", o1.seq, st)
	}
	if a, l := e.a(), e.l1(); c.entitled(o1, a) && l.valid && !l.gone {
		if st := c.locku(f, "O1", "a", "L1", rangeB0); st != nfsv4.NFS4_OK {
			failBoth(f, "sweep/follow-up-refused/LOCKU", "NFSv4.0: the well-formed LOCKU by lock-owner L1 (valid lock state ID, next sequence number) after the failing request was answered %d", st)
		}
	}
	c.closeEverything(f)
	w.settle(f)
	if !e.untracked {
		if ok, msg := w.fs.balanced(); !ok {
			f.FailP("C18", "reclaim-close/unbalanced", "NFSv4.0 error sweep: after the client closed every file it had open: %s\n%s", msg, w.serverDump())
		}
	}
	w.checkPassive(f)
	c.checkEntitlements(f)
}

func sweepThread40(w *world, x *mc.X, r *results) {
	cat := catalogue40()
	k := x.ChooseFree("failing request", len(cat))
	e := &sweep40{w: w, x: x, f: x, c: w.client40("c1")}
	x.Logf("failing request %d: %s", k, cat[k].name)
	st := cat[k].run(e)
	r.set("request", fmt.Sprintf("%d %s -> %d", k, cat[k].name, st))
	sweepLog("4.0 %3d %-90s -> %d untracked=%v", k, cat[k].name, st, e.untracked)
	x.ResetLocal(fmt.Sprintf("sent %d untracked=%v", k, e.untracked))
	e.followUp()
}

func scenariosSweep() []*mc.Scenario {
	props := []string{"C18", "C19"}
	return []*mc.Scenario{
		concScenario(concSpec{name: "e40-error-sweep", props: props, prefix: sweepPrefix40,
			bounds:  map[string]int{"quick": 0, "thorough": 0},
			threads: []concThread{{"client", sweepThread40}}}),
		concScenario(concSpec{name: "e41-error-sweep", props: props, prefix: sweepPrefix41,
			bounds:  map[string]int{"quick": 0, "thorough": 0},
			threads: []concThread{{"client", sweepThread41}}}),
	}
}

// sweepLog appends to the file named by SWEEP_LOG (developer aid: the list of
// catalogue entries with the status each one got).
func sweepLog(format string, args ...any) {
	if p := os.Getenv("SWEEP_LOG"); p != "" {
		if fh, err := os.OpenFile(p, os.O_APPEND|os.O_CREATE|os.O_WRONLY, 0o644); err == nil {
			fmt.Fprintf(fh, format+"\n", args...)
			fh.Close()
		}
	}
}
