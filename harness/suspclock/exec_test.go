package suspclock

// The executor's use of the suspendable clock: the REAL
// builder.NewLocalBuildExecutor(...).Execute() runs one action on the REAL
// clock.NewSuspendableClock over the fake base clock of this harness, with
// hand-written fakes for the build directory, the CAS and the runner.
//
// Threads: EXEC (Execute; the fake runner's Run executes on it), CONS (the
// consumer of the unbuffered executionStateUpdates channel: it is natively
// blocked on a gate before EVERY receive, and the event "cons:recv" that
// lets it receive competes freely with "tick" at quiescence, i.e. the
// consumer may be arbitrarily slow at each of the three updates), R1 (storage
// reader: Suspend/Resume brackets at any instant, in particular while inputs
// are fetched and while the command runs), the goroutines of the clock
// (adopted).
//
// Reference: the command's run interval is [runner.Run entered, runner.Run
// returned]; wall / U = ticks / unsuspended ticks inside it (world.begin is
// called on entry, world.freeze on return). The fake runner returns either
// its own result (exit code 7; event "cmd:finish") or, when its context is
// done, the context's error as a gRPC status, as the gRPC client of the real
// runner does.
//
// Oracle (C11, "a command that finishes within its unsuspended budget is
// never cancelled by the timeout [and the action is not reported as
// DEADLINE_EXCEEDED], and the reported virtual execution duration equals the
// unsuspended time it ran"), evaluated on the ExecuteResponse:
//   - the command is ended by the timeout / the response carries
//     DEADLINE_EXCEEDED only if, when Run returned, U or wall were inside the
//     same window as in the direct scenarios (world.inWindow);
//   - a command whose runner returned its own result with U below the window
//     gets that result (status OK, exit code 7);
//   - a command ended by the timeout is reported as DEADLINE_EXCEEDED; the run
//     context is never cancelled otherwise (nobody cancels the action);
//   - virtual_execution_duration is present and equals U at the end of the
//     run interval (for a timeout detected through a late-delivered expiry:
//     any value in [U(T), U], as in world.judge) - whatever the consumer's
//     speed and whatever happened before Run was entered.

import (
	"context"
	"fmt"
	"os"
	"time"

	"verif/mc"

	remoteexecution "github.com/bazelbuild/remote-apis/build/bazel/remote/execution/v2"
	"github.com/buildbarn/bb-remote-execution/pkg/builder"
	re_clock "github.com/buildbarn/bb-remote-execution/pkg/clock"
	"github.com/buildbarn/bb-remote-execution/pkg/filesystem/access"
	"github.com/buildbarn/bb-remote-execution/pkg/filesystem/pool"
	"github.com/buildbarn/bb-remote-execution/pkg/proto/remoteworker"
	runner_pb "github.com/buildbarn/bb-remote-execution/pkg/proto/runner"
	"github.com/buildbarn/bb-storage/pkg/blobstore"
	"github.com/buildbarn/bb-storage/pkg/blobstore/buffer"
	"github.com/buildbarn/bb-storage/pkg/digest"
	"github.com/buildbarn/bb-storage/pkg/filesystem"
	"github.com/buildbarn/bb-storage/pkg/filesystem/path"
	"github.com/buildbarn/bb-storage/pkg/util"

	"google.golang.org/grpc"
	"google.golang.org/grpc/codes"
	"google.golang.org/grpc/status"
	"google.golang.org/protobuf/types/known/durationpb"
	"google.golang.org/protobuf/types/known/emptypb"
)

const (
	execExitCode = 7
	// The executor's second use of the clock (maximum writable file upload
	// delay): far beyond every timeline.
	execUploadDelay = 3600 * tick
)

var (
	execDigestFunction = digest.MustNewFunction("inst", remoteexecution.DigestFunction_SHA256)
	execEmptyDigest    = digest.MustNewDigest("inst", remoteexecution.DigestFunction_SHA256, "e3b0c44298fc1c149afbf4c8996fb92427ae41e4649b934ca495991b7852b855", 0)
	execActionDigest   = &remoteexecution.Digest{Hash: "aaaaaaaaaaaaaaaa11111111111111111111111111111111aaaaaaaaaaaaaaaa", SizeBytes: 123}
	execCommandDigest  = &remoteexecution.Digest{Hash: "cccccccccccccccc11111111111111111111111111111111cccccccccccccccc", SizeBytes: 10}
	execInputDigest    = &remoteexecution.Digest{Hash: "dddddddddddddddd11111111111111111111111111111111dddddddddddddddd", SizeBytes: 0}
)

// ---------------------------------------------------------------------------
// Fakes.

// execDir is the build directory, the input root and every directory below.
type execDir struct{ w *world }

func (d *execDir) Close() error                                      { return nil }
func (d *execDir) Mkdir(name path.Component, perm os.FileMode) error { return nil }
func (d *execDir) Remove(name path.Component) error                  { return nil }
func (d *execDir) RemoveAll(name path.Component) error               { return nil }
func (d *execDir) ReadDir() ([]filesystem.FileInfo, error)           { return nil, nil }
func (d *execDir) InstallHooks(pool.FilePool, util.ErrorLogger)      {}
func (d *execDir) Readlink(name path.Component) (path.Parser, error) { return nil, os.ErrNotExist }
func (d *execDir) Lstat(path.Component) (filesystem.FileInfo, error) {
	return filesystem.FileInfo{}, os.ErrNotExist
}
func (d *execDir) Mknod(path.Component, os.FileMode, filesystem.DeviceNumber) error {
	return nil
}

func (d *execDir) EnterBuildDirectory(name path.Component) (builder.BuildDirectory, error) {
	return d, nil
}

func (d *execDir) EnterUploadableDirectory(name path.Component) (builder.UploadableDirectory, error) {
	return d, nil
}

func (d *execDir) EnterParentPopulatableDirectory(name path.Component) (builder.ParentPopulatableDirectory, error) {
	return d, nil
}

func (d *execDir) UploadFile(ctx context.Context, name path.Component, digestFunction digest.Function, writableFileUploadDelay <-chan struct{}) (digest.Digest, error) {
	return execEmptyDigest, nil
}

// MergeDirectoryContents: fetching the input root takes time (storage
// readers suspend the clock meanwhile): blocks until "fetch:done".
func (d *execDir) MergeDirectoryContents(ctx context.Context, errorLogger util.ErrorLogger, digest digest.Digest, monitor access.UnreadDirectoryMonitor) error {
	w := d.w
	if !w.ex.fetchGate.wait() {
		return status.Error(codes.Canceled, "harness teardown")
	}
	w.mu.Lock()
	w.ex.fetched = true
	w.mu.Unlock()
	w.x.Logf("exec: input root merged")
	return nil
}

type execCreator struct{ d *execDir }

func (c *execCreator) GetBuildDirectory(ctx context.Context, actionDigestIfNotRunInParallel *digest.Digest) (builder.BuildDirectory, *path.Trace, error) {
	return c.d, nil, nil
}

type execCAS struct{ blobstore.BlobAccess }

func (execCAS) Get(ctx context.Context, d digest.Digest) buffer.Buffer {
	return buffer.NewProtoBufferFromProto(&remoteexecution.Command{Arguments: []string{"true"}}, buffer.UserProvided)
}

// execRunner plays bb_runner and the command.
type execRunner struct {
	w     *world
	clk   *re_clock.SuspendableClock
	calls int
}

func (r *execRunner) CheckReadiness(ctx context.Context, in *runner_pb.CheckReadinessRequest, opts ...grpc.CallOption) (*emptypb.Empty, error) {
	return &emptypb.Empty{}, nil
}

func (r *execRunner) Run(ctx context.Context, in *runner_pb.RunRequest, opts ...grpc.CallOption) (*runner_pb.RunResponse, error) {
	w, x := r.w, r.w.x
	r.calls++
	if r.calls > 1 {
		w.fail("exec/runner-invoked-twice", "runner.Run was invoked %d times", r.calls)
	}
	// The run interval begins.
	w.begin()
	w.mu.Lock()
	w.ctx = ctx
	w.mu.Unlock()
	if !x.Free() {
		sd := w.dumpClock(r.clk)
		w.mu.Lock()
		w.startDump = sd
		w.mu.Unlock()
	}
	x.Logf("exec: runner.Run entered (tick %d)", w.clk.nowTick())
	g := w.finishGate
	w.mu.Lock()
	g.waiting = true
	w.mu.Unlock()
	select {
	case <-ctx.Done():
		w.mu.Lock()
		g.waiting = false
		w.mu.Unlock()
		err := ctx.Err()
		w.freeze(false, err)
		x.Logf("exec: the run context is done (%v): the command is killed", err)
		return nil, status.FromContextError(err).Err()
	case <-g.ch:
		w.mu.Lock()
		g.waiting = false
		w.cancelled = true
		w.mu.Unlock()
		w.freeze(true, nil)
		x.Logf("exec: the command finishes by itself with exit code %d", execExitCode)
		return &runner_pb.RunResponse{ExitCode: execExitCode}, nil
	}
}

// freeze ends the run interval: the reference accounting stops and is judged
// later against the ExecuteResponse.
func (w *world) freeze(own bool, ctxErr error) {
	now := w.clk.nowTick()
	w.mu.Lock()
	defer w.mu.Unlock()
	s := &w.ex.snap
	s.taken, s.own, s.ctxErr = true, own, ctxErr
	s.wall, s.u = w.wall, w.u
	s.inWindow = w.inWindow()
	s.late = w.u > w.upperU() || w.wall > w.upperWall()
	s.lo = w.u
	if w.delivNow == now {
		s.lo = w.delivU
	}
	s.window = fmt.Sprintf("timeout=%d threshold=%d maximum suspension=%d (late ticks: %d unsuspended with a loop timer in flight, %d with the cap timer in flight): allowed only when %d <= unsuspended <= %d or %d <= wall <= %d",
		w.p.d, w.p.threshold, w.p.maxSusp, w.lateU, w.lateCap, w.lower(), w.upperU(), w.limit(), w.upperWall())
	w.done = true
}

// ---------------------------------------------------------------------------
// Threads.

func (w *world) execThread(clk *re_clock.SuspendableClock, updates chan *remoteworker.CurrentState_Executing) {
	x := w.x
	be := builder.NewLocalBuildExecutor(execCAS{}, &execCreator{&execDir{w: w}}, &execRunner{w: w, clk: clk}, clk, execUploadDelay, nil, 1<<20, map[string]string{"PATH": "/bin"}, false)
	response := be.Execute(context.Background(), nil, nil, execDigestFunction, &remoteworker.DesiredState_Executing{
		ActionDigest: execActionDigest,
		Action: &remoteexecution.Action{
			CommandDigest:   execCommandDigest,
			InputRootDigest: execInputDigest,
			Timeout:         durationpb.New(time.Duration(w.p.d) * tick),
		},
	}, updates)
	close(updates)
	w.mu.Lock()
	w.ex.returned = true
	s, preTicks := w.ex.snap, w.ex.preTicks
	w.mu.Unlock()
	x.CheckNoLocksHeld("localBuildExecutor.Execute")
	if x.Free() {
		return
	}
	if response == nil || response.Result == nil || response.Result.ExecutionMetadata == nil {
		w.fail("exec/no-response", "Execute returned no response / result / execution metadata")
		return
	}
	code := codes.Code(response.Status.GetCode())
	x.Logf("exec: Execute returned status %v %q exit code %d virtual_execution_duration %v", code, response.Status.GetMessage(), response.Result.ExitCode, response.Result.ExecutionMetadata.VirtualExecutionDuration.AsDuration())
	if !s.taken {
		// Teardown of a stuck execution, or the command was never run.
		w.fail("exec/runner-not-invoked", "Execute returned status %v %q without having invoked the runner", code, response.Status.GetMessage())
		return
	}
	how := "the runner returned its own result (exit code 7)"
	if !s.own {
		how = fmt.Sprintf("the runner was stopped through its context (%v)", s.ctxErr)
	}
	timedOut := !s.own && s.ctxErr == context.DeadlineExceeded
	reportedDE := code == codes.DeadlineExceeded
	switch {
	case (timedOut || reportedDE) && !s.inWindow:
		kind := "early"
		if s.late {
			kind = "late"
		}
		w.fail("exec/timeout-outside-window/"+kind, "the command ran for wall=%d unsuspended=%d ticks between the entry and the return of runner.Run (%s), and the action is reported as %v %q, but %s (ticks before runner.Run was entered: %d)",
			s.wall, s.u, how, code, response.Status.GetMessage(), s.window, preTicks)
	case timedOut && !reportedDE:
		w.fail("exec/timeout-not-reported", "the command was cancelled by the execution timeout (wall=%d unsuspended=%d) but the action is reported as %v %q instead of DEADLINE_EXCEEDED", s.wall, s.u, code, response.Status.GetMessage())
	case s.own && !reportedDE && (code != codes.OK || response.Result.ExitCode != execExitCode):
		w.fail("exec/result-lost", "the command finished by itself with exit code %d after wall=%d unsuspended=%d ticks, but the action is reported as %v %q exit code %d", execExitCode, s.wall, s.u, code, response.Status.GetMessage(), response.Result.ExitCode)
	case !s.own && !timedOut:
		w.fail("exec/spurious-cancel", "the run context ended with %v although nobody cancelled the action (wall=%d unsuspended=%d; reported %v)", s.ctxErr, s.wall, s.u, code)
	}
	if ved := response.Result.ExecutionMetadata.VirtualExecutionDuration; ved == nil {
		w.fail("exec/unsuspended-duration", "the response carries no virtual_execution_duration (%s, status %v)", how, code)
	} else {
		lo := s.u
		if timedOut {
			lo = s.lo
		}
		if got := ved.AsDuration(); got < time.Duration(lo)*tick || got > time.Duration(s.u)*tick {
			w.fail("exec/unsuspended-duration", "virtual_execution_duration is %v, but the command ran unsuspended for %d ticks between the entry and the return of runner.Run (accepted: %d..%d; wall=%d, %s, status %v, ticks before runner.Run was entered: %d)",
				got, s.u, lo, s.u, s.wall, how, code, preTicks)
		}
	}
	x.Outcome("exec code=%v own=%v wall=%d u=%d pre=%d", code, s.own, s.wall, s.u, preTicks)
}

// consumer of the execution state updates: every receive waits for the event
// "cons:recv".
func (w *world) consumer(updates <-chan *remoteworker.CurrentState_Executing) {
	x := w.x
	for n := 0; ; n++ {
		x.ResetLocal(fmt.Sprintf("cons@%d", n))
		if !w.ex.consGate.wait() {
			return
		}
		u, ok := <-updates
		if !ok {
			return
		}
		kind := "?"
		switch u.ExecutionState.(type) {
		case *remoteworker.CurrentState_Executing_FetchingInputs:
			kind = "FetchingInputs"
		case *remoteworker.CurrentState_Executing_Running:
			kind = "Running"
		case *remoteworker.CurrentState_Executing_UploadingOutputs:
			kind = "UploadingOutputs"
		}
		w.mu.Lock()
		w.ex.consumed++
		w.ex.lastUpdate = kind
		w.mu.Unlock()
		x.Logf("consumer: received update %q", kind)
	}
}

func (w *world) execKey() string {
	e := &w.ex
	s := e.snap
	return fmt.Sprintf("|ex=%v%v,c=%d/%s,pre=%d,f=%v,r=%v,snap=%v/%v/%v/%d/%d/%v/%d",
		e.fetchGate.waiting, e.consGate.waiting, e.consumed, e.lastUpdate, e.preTicks, e.fetched, e.returned,
		s.taken, s.own, s.ctxErr, s.wall, s.u, s.inWindow, s.lo)
}

// addExecEvents: the environment of the executor scenarios. All of them are
// offered at full quiescence only and are free, i.e. every order of "the
// consumer receives the next update", "the input root has been fetched", "a
// tick passes" (before the run: at most maxPre, and only once the
// FetchingInputs update has been consumed - earlier ticks cannot be
// distinguished by any thread) and of the reader's first bracket is explored.
// Must be registered BEFORE the common events (the first enabled event is the
// free one; these all have IdleCost 0 anyway).
func (w *world) addExecEvents() {
	x := w.x
	x.AddEvent(&mc.Event{
		Name: "cons:recv", OnlyIdle: true,
		Enabled: func() bool {
			w.mu.Lock()
			n := w.ex.consumed
			w.mu.Unlock()
			return n < 3 && w.ex.consGate.isWaiting()
		},
		Fire: func() { w.ex.consGate.open() },
	})
	x.AddEvent(&mc.Event{
		Name: "fetch:done", OnlyIdle: true,
		Enabled: func() bool { return w.ex.fetchGate.isWaiting() },
		Fire:    func() { w.ex.fetchGate.open() },
	})
	x.AddEvent(&mc.Event{
		Name: "tick-before-run", OnlyIdle: true,
		Enabled: func() bool {
			w.mu.Lock()
			ok := !w.started && !w.ex.returned && w.ex.consumed >= 1 && w.ex.preTicks < w.p.maxPre
			w.mu.Unlock()
			return ok && len(w.clk.dueTimers()) == 0 && len(w.clk.dueContexts()) == 0
		},
		Fire: func() {
			w.mu.Lock()
			w.ex.preTicks++
			w.mu.Unlock()
			w.doTick(false)
		},
	})
}
