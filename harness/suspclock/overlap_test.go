package suspclock

import (
	"fmt"
	"sync"
	"time"

	"verif/mc"

	re_clock "github.com/buildbarn/bb-remote-execution/pkg/clock"
	"github.com/buildbarn/bb-storage/pkg/clock"
)

// Overlapping suspensions whose Resume calls interleave ("all nestings and
// overlaps of suspend/resume intervals from concurrent storage reads"), with
// time passing AT ANY POINT, in particular between a Resume's reading of the
// base clock and its critical section: the base clock's Now() is a scheduling
// point, and the tick is an environment event that is not restricted to
// quiescence. (The timeline scenarios of mc_test.go let time pass only when
// every thread is parked outside the clock.)
//
// Oracle: two suspensions are in force from instant 0 on. Each Resume takes
// effect at some instant of its own call [s_i, e_i]; the worker stops being
// stalled when the LAST of them has taken effect, i.e. at an instant in
// [max(s_A, s_B), max(e_A, e_B)]. At the end (instant T) the clock's
// unsuspended running time must therefore lie in
// [T - max(e_A, e_B), T - max(s_A, s_B)]: stalled time is never counted as run
// time and run time never as stalled time.

type pointClock struct {
	clock.Clock
	x   *mc.X
	mu  sync.Mutex
	now int
}

func (c *pointClock) tickNow() int {
	c.mu.Lock()
	defer c.mu.Unlock()
	return c.now
}

func (c *pointClock) Now() time.Time {
	c.x.Point("base.Now")
	return epoch.Add(time.Duration(c.tickNow()) * tick)
}

func overlapScenario(resumers, maxTicks int) *mc.Scenario {
	type iv struct{ s, e int }
	var (
		pc   *pointClock
		clk  *re_clock.SuspendableClock
		mu   sync.Mutex
		ivs  []iv
		done int
		// base: what the clock had counted before instant 0 (its
		// construction-time origin is not the harness's epoch).
		base time.Duration
	)
	return &mc.Scenario{
		Name:        fmt.Sprintf("overlap-resume-%dx-t%d", resumers, maxTicks),
		Props:       []string{prop},
		Liveness:    []string{prop},
		Livelock:    []string{prop},
		Panics:      []string{prop},
		Bounds:      map[string]int{"quick": -1, "thorough": -1},
		PreemptFree: true,
		Build: func(x *mc.X) {
			pc = &pointClock{x: x}
			clk = re_clock.NewSuspendableClock(pc, time.Hour, time.Second)
			ivs = make([]iv, resumers)
			done = 0
			for i := 0; i < resumers; i++ {
				clk.Suspend()
			}
			_, _, base = re_clock.VerifSuspendableClockDump(clk)
			for i := 0; i < resumers; i++ {
				i := i
				x.Go(fmt.Sprintf("R%d", i+1), func() {
					// A storage read that ends at some instant.
					x.Point("read-ends")
					s := pc.tickNow()
					clk.Resume()
					x.CheckNoLocksHeld("Resume")
					mu.Lock()
					ivs[i] = iv{s, pc.tickNow()}
					done++
					mu.Unlock()
					x.ResetLocal(fmt.Sprintf("R%d:done", i+1))
				})
			}
			x.AddEvent(&mc.Event{
				Name: "tick", Free: true,
				Enabled: func() bool { return pc.tickNow() < maxTicks },
				Fire: func() {
					pc.mu.Lock()
					pc.now++
					pc.mu.Unlock()
				},
			})
			x.SetKey(func() string {
				n, start, total := re_clock.VerifSuspendableClockDump(clk)
				mu.Lock()
				defer mu.Unlock()
				return fmt.Sprintf("now=%d sc=%d start=%d total=%d ivs=%v done=%d", pc.tickNow(), n, int(start.Sub(epoch)/tick), int((total-base)/tick), ivs, done)
			})
		},
		Finish: func(x *mc.X) {
			if x.Free() {
				return
			}
			n, start, total := re_clock.VerifSuspendableClockDump(clk)
			T := pc.tickNow()
			if n != 0 {
				x.FailP(prop, "overlap/still-suspended", "every suspension was resumed but the clock's suspension count is %d", n)
				return
			}
			got := int((total - base + epoch.Add(time.Duration(T)*tick).Sub(start)) / tick)
			maxS, maxE := 0, 0
			for _, v := range ivs {
				maxS, maxE = max(maxS, v.s), max(maxE, v.e)
			}
			if got < T-maxE || got > T-maxS {
				x.FailP(prop, "overlap/unsuspended-duration", "at instant %d the clock has counted %d unsuspended ticks, but the last of the overlapping suspensions ended at an instant in [%d, %d] (Resume calls [start, return]: %v): between %d and %d ticks were unsuspended - stall time counted as run time (or vice versa)", T, got, maxS, maxE, ivs, T-maxE, T-maxS)
			}
			x.Outcome("T=%d unsuspended=%d ivs=%v", T, got, ivs)
		},
	}
}
