package sizeclass

import (
	"testing"

	"verif/mc"
)

func TestMC(t *testing.T) {
	mc.Main(t, storeScenarios(), wfSeqs())
}
