package nfs

import (
	"fmt"

	"verif/mc"

	"github.com/buildbarn/go-xdr/pkg/protocols/nfsv4"
)

// probeLocks is the active part of the C20b oracle, run on a throw-away
// instance of every state: for every live client, lock-owner, range and
// type, LOCKT must agree with the reference model.
func (w *world) probeLocks(f failer) {
	w.poke()
	w.refreshNames()
	for _, c := range sortedClients40(w) {
		c.sync(f)
	}
	for _, c := range sortedClients41(w) {
		c.sync(f)
	}
	ranges := []lockRange{rangeB0, rangeB1, rangeAll, rangeHigh}
	for _, leaf := range w.fs.leaves {
		if !w.reachable(leaf) {
			continue
		}
		for _, c := range sortedClients40(w) {
			if !c.haveID || !c.alive {
				continue
			}
			for _, ln := range []string{"L1", "L2"} {
				for _, r := range ranges {
					for _, shared := range []bool{false, true} {
						c.lockt(f, leaf, ln, r, shared)
					}
				}
			}
		}
		for _, c := range sortedClients41(w) {
			if !c.haveID || !c.alive || !c.ensureSession(f) {
				continue
			}
			// ... whatever the clientid field of lock_owner4 says: the
			// session identifies the client.
			for _, m := range cidModes {
				c.withCID(m, func() {
					for _, ln := range []string{"L1", "L2"} {
						for _, r := range ranges {
							for _, shared := range []bool{false, true} {
								c.lockt(f, leaf, ln, r, shared)
							}
						}
					}
				})
			}
		}
	}
}

// ---------------------------------------------------------------------------
// Alphabets for NFSv4.1.

func l41exchange(cl string, v byte) letter {
	return letter{name: fmt.Sprintf("41 EXCHANGE_ID %s verifier %d", cl, v), do: func(w *world, f failer) { w.client41(cl).exchangeID(f, v) }}
}

func l41createSession(cl string) letter {
	return letter{name: "41 CREATE_SESSION " + cl,
		enabled: func(w *world) bool { return w.client41(cl).pendOK },
		do: func(w *world, f failer) {
			c := w.client41(cl)
			c.createSession(f, c.pendID, c.pendVerf)
		}}
}

func has41(w *world, cl string) bool { c := w.client41(cl); return c.haveID && c.session() != nil }

func open41of(w *world, cl, owner, file string) *open41 {
	c := w.client41(cl)
	if c.opens[owner] == nil {
		return nil
	}
	return c.opens[owner][file]
}

func usable41(w *world, cl, owner, file string) bool {
	op := open41of(w, cl, owner, file)
	return op != nil && op.valid && has41(w, cl)
}

func l41open(cl, owner, file string, access uint32, how openHow, claim claim41) letter {
	return letter{name: fmt.Sprintf("41 OPEN %s %s %s %s %s %s", cl, owner, file, accessNames[access], how, claim),
		enabled: func(w *world) bool {
			if !has41(w, cl) {
				return false
			}
			if claim == claimPrevious {
				return open41of(w, cl, owner, file) != nil
			}
			return claim == claimNull || w.fs.linked[file] != nil || open41of(w, cl, owner, file) != nil
		},
		do: func(w *world, f failer) { w.client41(cl).open(f, owner, file, access, how, claim) }}
}

// cid turns a letter of client cl into its variant that fills the clientid
// field of open_owner4 / lock_owner4 arguments with 0 or with another
// client's ID instead of the session's client ID.
func cid(m cidMode, cl string, l letter) letter {
	do := l.do
	l.name += m.String()
	l.do = func(w *world, f failer) { w.client41(cl).withCID(m, func() { do(w, f) }) }
	return l
}

// prefix41OpenCID is prefix41Open with the given clientid field.
func prefix41OpenCID(m cidMode, cl, owner, file string, access uint32) func(w *world, f failer) {
	p := prefix41Open(cl, owner, file, access)
	return func(w *world, f failer) {
		c := w.client41(cl)
		if !c.haveID {
			c.exchangeID(f, 1)
			c.createSession(f, c.pendID, c.pendVerf)
		}
		c.withCID(m, func() { p(w, f) })
	}
}

func l41openIOClose(cl, owner, file string, access uint32) letter {
	return letter{name: fmt.Sprintf("41 OPEN+IO+CLOSE %s %s %s %s current-stateid", cl, owner, file, accessNames[access]),
		enabled: func(w *world) bool { return has41(w, cl) },
		do:      func(w *world, f failer) { w.client41(cl).openIOClose(f, owner, file, access) }}
}

// l41openSwitchUse: OPEN of file, then a change of the current filehandle to
// other, then user u presenting the current state ID, all in one COMPOUND.
func l41openSwitchUse(cl, owner, file string, access uint32, other string, viaLookup bool, user string) letter {
	var u csidUser
	for _, cu := range csidUsers() {
		if cu.name == user {
			u = cu
		}
	}
	how := "PUTFH"
	if viaLookup {
		how = "PUTROOTFH+LOOKUP"
	}
	return letter{name: fmt.Sprintf("41 OPEN %s %s %s %s + %s %s + %s current-stateid", cl, owner, file, accessNames[access], how, other, user),
		enabled: func(w *world) bool { return has41(w, cl) && w.fs.linked[file] != nil && w.fs.linked[other] != nil },
		do:      func(w *world, f failer) { w.client41(cl).openSwitchUse(f, owner, file, access, other, viaLookup, u) }}
}

func l41close(cl, owner, file string) letter {
	return letter{name: fmt.Sprintf("41 CLOSE %s %s %s", cl, owner, file),
		enabled: func(w *world) bool { return usable41(w, cl, owner, file) },
		do:      func(w *world, f failer) { w.client41(cl).close(f, open41of(w, cl, owner, file)) }}
}

func l41downgrade(cl, owner, file string, access uint32) letter {
	return letter{name: fmt.Sprintf("41 OPEN_DOWNGRADE %s %s %s to %s", cl, owner, file, accessNames[access]),
		enabled: func(w *world) bool {
			op := open41of(w, cl, owner, file)
			return usable41(w, cl, owner, file) && op.bits != access && access&^op.bits == 0
		},
		do: func(w *world, f failer) { w.client41(cl).downgrade(f, open41of(w, cl, owner, file), access) }}
}

func l41lock(cl, owner, file, lowner string, r lockRange, shared, viaOpen bool) letter {
	via := ""
	if viaOpen {
		via = " via-open-stateid"
	}
	return letter{name: fmt.Sprintf("41 LOCK %s %s %s %s %s %s%s", cl, owner, file, lowner, r.name, map[bool]string{true: "shared", false: "excl"}[shared], via),
		enabled: func(w *world) bool { return usable41(w, cl, owner, file) },
		do: func(w *world, f failer) {
			w.client41(cl).lock(f, open41of(w, cl, owner, file), lowner, r, shared, viaOpen)
		}}
}

func lockUsable41(w *world, cl, owner, file, lowner string) bool {
	op := open41of(w, cl, owner, file)
	return op != nil && has41(w, cl) && op.locks[lowner] != nil && op.locks[lowner].valid
}

func l41locku(cl, owner, file, lowner string, r lockRange) letter {
	return letter{name: fmt.Sprintf("41 LOCKU %s %s %s %s %s", cl, owner, file, lowner, r.name),
		enabled: func(w *world) bool { return lockUsable41(w, cl, owner, file, lowner) },
		do:      func(w *world, f failer) { w.client41(cl).locku(f, open41of(w, cl, owner, file), lowner, r) }}
}

func l41lockt(cl, file, lowner string, r lockRange, shared bool) letter {
	return letter{name: fmt.Sprintf("41 LOCKT %s %s %s %s %s", cl, file, lowner, r.name, map[bool]string{true: "shared", false: "excl"}[shared]),
		enabled: func(w *world) bool { return has41(w, cl) && w.fs.linked[file] != nil },
		do:      func(w *world, f failer) { w.client41(cl).lockt(f, w.fs.linked[file], lowner, r, shared) }}
}

func l41free(cl, owner, file, lowner string) letter {
	return letter{name: fmt.Sprintf("41 FREE_STATEID %s %s %s %s", cl, owner, file, lowner),
		enabled: func(w *world) bool { return lockUsable41(w, cl, owner, file, lowner) },
		do:      func(w *world, f failer) { w.client41(cl).freeStateid(f, open41of(w, cl, owner, file), lowner) }}
}

func l41test(cl string) letter {
	return letter{name: "41 TEST_STATEID " + cl, enabled: func(w *world) bool { return has41(w, cl) },
		do: func(w *world, f failer) { w.client41(cl).testStateids(f) }}
}

// l41sequence: a COMPOUND that does nothing but renew the lease.
func l41sequence(cl string) letter {
	return letter{name: "41 SEQUENCE " + cl, enabled: func(w *world) bool { return has41(w, cl) },
		do: func(w *world, f failer) {
			w.client41(cl).sequence(f, "SEQUENCE+PUTROOTFH", &nfsv4.NfsArgop4_OP_PUTROOTFH{})
		}}
}

func l41destroySession(cl string) letter {
	return letter{name: "41 DESTROY_SESSION " + cl, enabled: func(w *world) bool { return w.client41(cl).session() != nil },
		do: func(w *world, f failer) { w.client41(cl).destroySession(f) }}
}

func l41destroyClientid(cl string) letter {
	return letter{name: "41 DESTROY_CLIENTID " + cl, enabled: func(w *world) bool { return w.client41(cl).haveID },
		do: func(w *world, f failer) { w.client41(cl).destroyClientid(f) }}
}

func l41io(k ioKind, cl, owner, file string, kind stateidKind, lowner string) letter {
	kn := [...]string{"open", "lock", "anonymous", "bypass", "foreign"}[kind]
	name := fmt.Sprintf("41 %s %s %s %s stateid=%s", k, cl, owner, file, kn)
	if kind == sidLock {
		name += ":" + lowner
	}
	return letter{name: name,
		enabled: func(w *world) bool {
			switch kind {
			case sidOpen:
				return usable41(w, cl, owner, file)
			case sidLock:
				return lockUsable41(w, cl, owner, file, lowner)
			}
			return has41(w, cl)
		},
		do: func(w *world, f failer) {
			c := w.client41(cl)
			switch kind {
			case sidOpen:
				op := open41of(w, cl, owner, file)
				bits := uint32(0)
				if c.entitled(op) {
					bits = op.bits
				}
				c.io(f, k, op.leaf, op.sid, bits)
			case sidLock:
				op := open41of(w, cl, owner, file)
				l := op.locks[lowner]
				bits := uint32(0)
				if c.entitled(op) && !l.gone {
					bits = l.bits
				}
				c.io(f, k, op.leaf, l.sid, bits)
			default:
				leaf := w.fs.linked[file]
				if leaf == nil {
					leaf = w.fs.leaves[0]
				}
				sid := anonymousSID
				if kind == sidBypass {
					sid = bypassSID
				}
				c.io(f, k, leaf, sid, 0)
			}
		}}
}

func prefix41Session(clients ...string) func(w *world, f failer) {
	return func(w *world, f failer) {
		for _, cl := range clients {
			c := w.client41(cl)
			c.exchangeID(f, 1)
			c.createSession(f, c.pendID, c.pendVerf)
		}
	}
}

func prefix41Open(cl, owner, file string, access uint32) func(w *world, f failer) {
	return func(w *world, f failer) {
		c := w.client41(cl)
		if !c.haveID {
			c.exchangeID(f, 1)
			c.createSession(f, c.pendID, c.pendVerf)
		}
		c.open(f, owner, file, access, howNoCreate, claimNull)
	}
}

func seqs41() []*mc.Seq {
	var out []*mc.Seq

	out = append(out, makeSeq("v41-registration", []string{"C18", "C19"}, map[string]int{"quick": 5, "thorough": 6}, nil, []letter{
		l41exchange("d1", 1), l41exchange("d1", 2), l41createSession("d1"),
		l41open("d1", "O1", "a", accBoth, howNoCreate, claimNull),
		l41lock("d1", "O1", "a", "L1", rangeB0, false, false),
		l41close("d1", "O1", "a"),
		l41destroySession("d1"), l41destroyClientid("d1"),
		lAdvance(halfLease, "lease/2"), lAdvance(pastLease, "lease+1"),
	}))

	out = append(out, makeSeq("v41-share", []string{"C18", "C19"}, map[string]int{"quick": 4, "thorough": 5}, prefix41Session("d1"), []letter{
		l41open("d1", "O1", "a", accRead, howNoCreate, claimNull), l41open("d1", "O1", "a", accWrite, howNoCreate, claimFH), l41open("d1", "O1", "a", accBoth, howNoCreate, claimPrevious),
		l41open("d1", "O2", "a", accBoth, howUnchecked, claimNull), l41open("d1", "O1", "a", accRead, howGuarded, claimNull),
		cid(cidZero, "d1", l41open("d1", "O1", "a", accBoth, howNoCreate, claimNull)), cid(cidOther, "d1", l41open("d1", "O1", "a", accRead, howNoCreate, claimFH)),
		l41downgrade("d1", "O1", "a", accRead), l41downgrade("d1", "O1", "a", accWrite),
		l41close("d1", "O1", "a"), l41close("d1", "O2", "a"),
		l41lock("d1", "O1", "a", "L1", rangeB0, false, false), l41locku("d1", "O1", "a", "L1", rangeB0), l41free("d1", "O1", "a", "L1"),
		l41io(ioRead, "d1", "O1", "a", sidOpen, ""), l41io(ioWrite, "d1", "O1", "a", sidOpen, ""), l41io(ioWrite, "d1", "O1", "a", sidLock, "L1"),
		l41io(ioRead, "d1", "O1", "a", sidAnonymous, ""), l41io(ioSetattr, "d1", "O1", "a", sidOpen, ""),
		l41test("d1"),
		l41openIOClose("d1", "O1", "a", accBoth), l41openIOClose("d1", "O2", "a", accRead),
		// The current state ID must not survive a change of the current
		// filehandle (b is linked but never opened here).
		l41openSwitchUse("d1", "O1", "a", accBoth, "b", false, "READ"), l41openSwitchUse("d1", "O2", "a", accRead, "b", true, "CLOSE"),
		lRemove("a"),
		lAdvance(pastLease, "lease+1"),
	}))

	locksPrefix := chain(prefix41Open("d1", "O1", "a", accBoth), prefix41Open("d2", "O1", "a", accBoth))
	var lockLetters []letter
	for _, r := range []lockRange{rangeB0, rangeB01, rangeTail} {
		lockLetters = append(lockLetters,
			l41lock("d1", "O1", "a", "L1", r, false, false),
			l41lock("d1", "O1", "a", "L2", r, true, false),
			l41lock("d2", "O1", "a", "L1", r, true, false),
			l41locku("d1", "O1", "a", "L1", r),
		)
	}
	lockLetters = append(lockLetters,
		l41lock("d1", "O1", "a", "L1", rangeB1, false, true),
		// The clientid field inside open_to_lock_owner4 / lock_owner4 is
		// to be ignored: owner L1 of d1 is ONE owner whatever it says.
		cid(cidZero, "d1", l41lock("d1", "O1", "a", "L1", rangeB0, false, true)), cid(cidOther, "d1", l41lock("d1", "O1", "a", "L1", rangeB1, true, true)),
		cid(cidZero, "d1", l41lockt("d1", "a", "L1", rangeAll, false)), cid(cidOther, "d1", l41lockt("d1", "a", "L1", rangeB01, false)),
		cid(cidZero, "d2", l41lockt("d2", "a", "L1", rangeB1, false)),
		l41lock("d1", "O1", "a", "L1", rangeHigh, true, false), l41lock("d1", "O1", "a", "L1", rangeOvfl, false, false), l41lock("d2", "O1", "a", "L1", rangeZero, false, false),
		l41lock("d2", "O1", "a", "L1", rangeAll, false, false),
		l41locku("d1", "O1", "a", "L2", rangeAll), l41locku("d2", "O1", "a", "L1", rangeB1),
		l41lockt("d1", "a", "L1", rangeAll, false), l41lockt("d1", "a", "L2", rangeB0, true), l41lockt("d2", "a", "L1", rangeB1, false),
		l41free("d1", "O1", "a", "L1"), l41free("d2", "O1", "a", "L1"),
		l41close("d1", "O1", "a"),
		lAdvance(pastLease, "lease+1"),
	)
	out = append(out, makeSeq("v41-locks", []string{"C18", "C20"}, map[string]int{"quick": 3, "thorough": 4}, locksPrefix, lockLetters))

	// One lock-owner across two files and two open-owners of one client.
	out = append(out, makeSeq("v41-locks-two-files", all3, map[string]int{"quick": 4, "thorough": 5},
		chain(prefix41OpenCID(cidZero, "d1", "O1", "a", accBoth), prefix41OpenCID(cidOther, "d1", "O1", "b", accBoth), prefix41Open("d1", "O2", "a", accBoth)), []letter{
			l41lock("d1", "O1", "a", "L1", rangeB0, false, false), cid(cidZero, "d1", l41lock("d1", "O1", "b", "L1", rangeB0, true, false)),
			cid(cidOther, "d1", l41lockt("d1", "a", "L1", rangeB01, false)), cid(cidZero, "d1", l41lockt("d1", "b", "L1", rangeB0, false)),
			l41lock("d1", "O2", "a", "L3", rangeB01, true, false), l41lock("d1", "O1", "a", "L2", rangeB1, true, false),
			l41locku("d1", "O1", "a", "L1", rangeAll), l41locku("d1", "O1", "b", "L1", rangeB0),
			l41lockt("d1", "a", "L1", rangeB01, false), l41lockt("d1", "b", "L2", rangeB0, false),
			l41free("d1", "O1", "a", "L1"), l41free("d1", "O1", "b", "L1"),
			l41close("d1", "O1", "a"), l41close("d1", "O2", "a"),
			l41downgrade("d1", "O1", "a", accRead),
			l41io(ioWrite, "d1", "O1", "a", sidLock, "L1"),
			// ... and the current state ID of an OPEN of a presented at
			// b, which the same open-owner has open as well.
			l41openSwitchUse("d1", "O1", "a", accRead, "b", false, "WRITE"), l41openSwitchUse("d1", "O1", "a", accRead, "b", false, "LOCK(open_to_lock_owner4)"),
		}))

	// One lock-owner locking one file through the opens of two different
	// open-owners. The servers keep one lock count per (open, lock-owner)
	// pair, but one lock table per (file, lock-owner): the counts go wrong
	// (panics "Negative lock count" / "Failed to release locks", locks
	// surviving CLOSE). All symptoms are reported under one fingerprint;
	// the other scenarios keep every lock-owner on one open per file.
	out = append(out, makeSeqFP("v4x-lock-owner-through-two-opens", []string{"C20"}, map[string]int{"quick": 3, "thorough": 4},
		chain(prefix41Open("d1", "O1", "a", accBoth), prefix41Open("d1", "O2", "a", accBoth),
			prefix40Open("c1", "O1", "b", accBoth), prefix40Open("c1", "O2", "b", accBoth)), []letter{
			l41lock("d1", "O1", "a", "L1", rangeB0, false, false), l41lock("d1", "O2", "a", "L1", rangeB01, false, false),
			l41locku("d1", "O1", "a", "L1", rangeAll), l41close("d1", "O2", "a"), l41close("d1", "O1", "a"),
			l40lock("c1", "O1", "b", "L1", rangeB0, false), l40lock("c1", "O2", "b", "L1", rangeB01, false),
			l40locku("c1", "O1", "b", "L1", rangeAll), l40close("c1", "O2", "b"), l40close("c1", "O1", "b"),
		}, "lock-owner-through-two-opens"))

	// NFSv4.0 and NFSv4.1 clients share the opened files pool: their
	// locks exclude each other.
	out = append(out, makeSeq("v40-v41-locks", []string{"C20", "C18"}, map[string]int{"quick": 4, "thorough": 5},
		chain(prefix40Open("c1", "O1", "a", accBoth), prefix41OpenCID(cidOther, "d1", "O1", "a", accBoth)), []letter{
			l40lock("c1", "O1", "a", "L1", rangeB0, false), l40lock("c1", "O1", "a", "L1", rangeTail, true),
			// "other" is the NFSv4.0 client's ID here: same owner bytes
			// L1, same number, different server.
			l41lock("d1", "O1", "a", "L1", rangeB01, true, false), cid(cidOther, "d1", l41lock("d1", "O1", "a", "L1", rangeAll, false, false)),
			l40locku("c1", "O1", "a", "L1", rangeAll), l41locku("d1", "O1", "a", "L1", rangeB0),
			l40lockt("c1", "a", "L1", rangeB01, false), l41lockt("d1", "a", "L1", rangeB01, false), cid(cidOther, "d1", l41lockt("d1", "a", "L1", rangeB01, false)), cid(cidZero, "d1", l41lockt("d1", "a", "L1", rangeAll, true)),
			l40close("c1", "O1", "a"), l41close("d1", "O1", "a"),
			lRemove("a"),
			lAdvance(pastLease, "lease+1"),
		}))

	// Share reservations that outlive an OPEN_DOWNGRADE (see the NFSv4.0
	// twin v40-locked-downgrade-upgrade): open read+write by O1, lock held
	// by L1 through that open; second scenario: then downgraded to read.
	lockedPrefix41 := chain(prefix41Open("d1", "O1", "a", accBoth), func(w *world, f failer) {
		w.client41("d1").lock(f, open41of(w, "d1", "O1", "a"), "L1", rangeB0, false, false)
	})
	downgradeLetters41 := []letter{
		l41downgrade("d1", "O1", "a", accRead), l41downgrade("d1", "O1", "a", accWrite),
		l41open("d1", "O1", "a", accRead, howNoCreate, claimNull), l41open("d1", "O1", "a", accWrite, howNoCreate, claimNull), l41open("d1", "O1", "a", accBoth, howNoCreate, claimFH),
		l41locku("d1", "O1", "a", "L1", rangeB0), l41lock("d1", "O1", "a", "L2", rangeB1, true, false),
		l41close("d1", "O1", "a"),
		l41free("d1", "O1", "a", "L1"),
		l41io(ioWrite, "d1", "O1", "a", sidLock, "L1"),
		lAdvance(pastLease, "lease+1"),
	}
	out = append(out, makeSeq("v41-locked-downgrade-upgrade", []string{"C18", "C19"}, map[string]int{"quick": 4, "thorough": 6}, lockedPrefix41, downgradeLetters41))
	out = append(out, makeSeq("v41-locked-downgraded-upgrade", []string{"C18"}, map[string]int{"quick": 4, "thorough": 6},
		chain(lockedPrefix41, func(w *world, f failer) { w.client41("d1").downgrade(f, open41of(w, "d1", "O1", "a"), accRead) }), downgradeLetters41))

	// sa_cachethis=false: every SEQUENCE of the session asks the server
	// not to cache the reply. A retransmission after completion gets the
	// original bytes or NFS4ERR_RETRY_UNCACHED_REP, is never executed
	// again, and false retries / misordered numbers are still refused.
	out = append(out, makeSeq("v41-uncached", []string{"C19"}, map[string]int{"quick": 3, "thorough": 5},
		chain(func(w *world, f failer) { w.uncached41 = true }, prefix41Session("d1")), []letter{
			l41open("d1", "O1", "a", accRead, howNoCreate, claimNull), l41open("d1", "O1", "a", accBoth, howNoCreate, claimNull), l41open("d1", "O1", "b", accWrite, howUnchecked, claimNull),
			l41downgrade("d1", "O1", "a", accRead),
			l41close("d1", "O1", "a"),
			l41lock("d1", "O1", "a", "L1", rangeB0, false, false), l41locku("d1", "O1", "a", "L1", rangeB0), l41free("d1", "O1", "a", "L1"),
			l41io(ioWrite, "d1", "O1", "a", sidOpen, ""),
			l41openIOClose("d1", "O2", "a", accBoth),
			l41test("d1"),
		}))

	// NFSv4.1 twin of v40-two-files-lease: O1 has two files open, one of
	// them is closed / downgraded / re-opened, the lease time passes in
	// steps of lease/2 with a SEQUENCE (which renews the lease) in between.
	out = append(out, makeSeq("v41-two-files-lease", []string{"C18"}, map[string]int{"quick": 7, "thorough": 9},
		chain(prefix41Open("d1", "O1", "a", accBoth), prefix41Open("d1", "O1", "b", accRead)), []letter{
			l41close("d1", "O1", "a"), l41close("d1", "O1", "b"),
			l41downgrade("d1", "O1", "a", accRead),
			l41open("d1", "O1", "a", accRead, howNoCreate, claimNull),
			l41sequence("d1"),
			l41io(ioRead, "d1", "O1", "b", sidOpen, ""),
			lAdvance(halfLease, "lease/2"),
		}))
	// NFSv4.1 twin of v40-two-clients-lease: d1 (created first, b open) and
	// d2 (a open read+write, lock) keep their leases alive with bare SEQUENCE
	// compounds or READ, or go silent.
	out = append(out, makeSeq("v41-two-clients-lease", []string{"C18"}, map[string]int{"quick": 7, "thorough": 9},
		chain(prefix41Session("d1", "d2"), prefix41Open("d1", "O1", "b", accRead), prefix41Open("d2", "O1", "a", accBoth), func(w *world, f failer) {
			w.client41("d2").lock(f, open41of(w, "d2", "O1", "a"), "L1", rangeB0, false, false)
		}), []letter{
			l41sequence("d1"), l41sequence("d2"),
			l41io(ioRead, "d1", "O1", "b", sidOpen, ""),
			l41close("d2", "O1", "a"),
			lAdvance(halfLease, "lease/2"),
		}))
	return out
}
