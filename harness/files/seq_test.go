package files

import (
	"bytes"
	"context"
	"fmt"
	"sort"

	"verif/mc"

	"github.com/buildbarn/bb-remote-execution/pkg/builder"

	"github.com/buildbarn/bb-remote-execution/pkg/filesystem/pool"
	"github.com/buildbarn/bb-remote-execution/pkg/filesystem/virtual"
	bazeloutputservicerev2 "github.com/buildbarn/bb-remote-execution/pkg/proto/bazeloutputservice/rev2"
	"github.com/buildbarn/bb-storage/pkg/digest"
	"github.com/buildbarn/bb-storage/pkg/filesystem"
)

// Part 1: Engine B. All operation sequences up to a depth on ONE pool-backed
// file behind a real stateful handle allocator, compared step by step with a
// reference model (links + descriptors per share mask + frozen readers +
// contents).

const prop = "C16"

var ctx = context.Background()

// closedChannel is a writable-file upload delay that has already expired:
// sequential uploads never wait for writers.
var closedChannel = func() <-chan struct{} {
	c := make(chan struct{})
	close(c)
	return c
}()

type seqCfg struct {
	name      string
	nfs       bool
	initShare virtual.ShareMask
	// viaDirectory: the file is the entry of a real in-memory directory and
	// uploads go through the real virtualBuildDirectory.UploadFile (part 4,
	// dir_test.go).
	viaDirectory bool
}

// newLeaf creates the system under test: the real pool-backed file allocator
// over the instrumented pool, decorated by the real FUSE or NFS stateful
// handle allocator, and one file created through it.
func newLeaf(p *fakePool, logger *recordingErrorLogger, nfs bool, share virtual.ShareMask) virtual.LinkableLeaf {
	var handles virtual.StatefulHandleAllocator
	if nfs {
		handles = virtual.NewNFSHandleAllocator(&seqRNG{})
	} else {
		handles = virtual.NewFUSEHandleAllocator(&seqRNG{})
	}
	fa := virtual.NewHandleAllocatingFileAllocator(
		virtual.NewPoolBackedFileAllocator(p, logger, func(virtual.AttributesMask, *virtual.Attributes) {}, virtual.NoNamedAttributesFactory),
		handles)
	leaf, err := fa.NewFile(pool.ZeroHoleSource, false, 0, share)
	if err != nil {
		panic(err)
	}
	return leaf
}

type seqState struct {
	c    *mc.SeqCtx
	cfg  seqCfg
	pool *fakePool
	cas  *fakeCAS
	log  *recordingErrorLogger
	leaf virtual.LinkableLeaf
	// bd is the virtual build directory through which uploads go (nil:
	// ApplyUploadFile on the leaf).
	bd builder.BuildDirectory
	// upContent[function] is the contents at the last successful upload
	// with that digest function (directory configurations only; part of
	// the key, as anything in front of the file that remembers uploads
	// would depend on it).
	upContent map[string]string

	// Reference model.
	links int
	// FUSE configurations: open descriptors per share mask (1=r, 2=w,
	// 3=rw); a descriptor is closed with the mask it was opened with.
	// NFS configurations: share reservations held per share BIT (desc[1]
	// read bits, desc[2] write bits, desc[3] unused). The NFSv4 server
	// closes any subset of the bits it holds (OPEN_DOWNGRADE), upgrades
	// by a second VirtualOpenSelf with the missing bits, and closes bits
	// acquired by separate opens with one merged VirtualClose.
	desc     [4]int
	frozen   []filesystem.FileReader
	content  []byte
	exec     bool
	released bool // the last reference is gone (permanent)
	next     byte // last unique byte value handed out
}

func (s *seqState) fail(fp, format string, args ...any) { s.c.FailP(prop, fp, format, args...) }
func (s *seqState) pf() *poolFile                       { return s.pool.files[0] }
func (s *seqState) refs() int {
	return s.links + s.desc[1] + s.desc[2] + s.desc[3] + len(s.frozen)
}
func (s *seqState) writers() int { return s.desc[2] + s.desc[3] }

func (s *seqState) describe() string {
	return fmt.Sprintf("links=%d descriptors{r:%d w:%d rw:%d} frozen=%d contents=%q", s.links, s.desc[1], s.desc[2], s.desc[3], len(s.frozen), s.content)
}

func newSeqState(c *mc.SeqCtx, cfg seqCfg) *seqState {
	s := &seqState{c: c, cfg: cfg, log: &recordingErrorLogger{}, cas: &fakeCAS{}}
	s.pool = &fakePool{fail: s.fail}
	if cfg.viaDirectory {
		s.leaf, s.bd = newDirFile(s.pool, s.log, cfg.nfs, cfg.initShare, s.cas)
		s.upContent = map[string]string{}
	} else {
		s.leaf = newLeaf(s.pool, s.log, cfg.nfs, cfg.initShare)
	}
	s.links = 1
	s.acquire(cfg.initShare, 1)
	return s
}

// acquire adds (n=1) or removes (n=-1) the share reservations of mask.
func (s *seqState) acquire(mask virtual.ShareMask, n int) {
	if mask == 0 {
		return
	}
	if !s.cfg.nfs {
		s.desc[mask] += n
		return
	}
	for bit := virtual.ShareMask(1); bit <= 2; bit <<= 1 {
		if mask&bit != 0 {
			s.desc[bit] += n
		}
	}
}

// canClose tells whether the descriptor protocol permits VirtualClose(mask):
// FUSE releases a descriptor with the mask it was opened with; NFSv4 closes
// any combination of share bits it currently holds.
func (s *seqState) canClose(mask virtual.ShareMask) bool {
	if !s.cfg.nfs {
		return s.desc[mask] > 0
	}
	for bit := virtual.ShareMask(1); bit <= 2; bit <<= 1 {
		if mask&bit != 0 && s.desc[bit] == 0 {
			return false
		}
	}
	return true
}

// settle is the lifetime oracle, evaluated after every operation: the pool
// file is closed exactly once, exactly when the model loses its last
// reference.
func (s *seqState) settle(op string) {
	if s.refs() == 0 {
		s.released = true
	}
	pf := s.pf()
	switch {
	case !s.released && pf.closed > 0:
		s.fail("released-early/"+op, "after %s the file still has references (%s) but its pool file was closed", op, s.describe())
	case s.released && pf.closed == 0:
		s.fail("not-released/"+op, "after %s the last reference is gone (%s) but the pool file was not closed", op, s.describe())
	}
}

// guardBlocking prevents a sequential driver from hanging inside
// lockMutatingData: the model has no frozen reader, so the implementation
// must not count one either.
func (s *seqState) guardBlocking(op string) bool {
	d, _ := virtual.VerifFilesDump(s.leaf)
	if d.FrozenDescriptorsCount > 0 {
		s.fail("frozen-count-leak/"+op, "no frozen reader or upload is in progress, yet the file counts %d frozen descriptors: %s would block forever", d.FrozenDescriptorsCount, op)
		return false
	}
	return true
}

// opOpen opens the file. With truncError the pool file fails the Truncate
// that O_TRUNC needs: whatever the call then returns, the contents are still
// there, and a descriptor exists only if the call reported success.
func (s *seqState) opOpen(mask virtual.ShareMask, trunc, truncError bool) {
	if trunc && !s.guardBlocking("open") {
		return
	}
	pf := s.pf()
	failuresBefore := pf.truncateFailures
	pf.failTruncate = truncError && !s.released
	var attr virtual.Attributes
	st := s.leaf.VirtualOpenSelf(ctx, mask, &virtual.OpenExistingOptions{Truncate: trunc}, virtual.AttributesMaskSizeBytes, &attr)
	pf.failTruncate = false
	delivered := pf.truncateFailures > failuresBefore
	if s.released {
		if st == virtual.StatusOK {
			s.fail("stale-open-succeeded", "VirtualOpenSelf succeeded on a file whose last reference is gone")
		}
		s.settle("open")
		return
	}
	if st != virtual.StatusOK {
		if !delivered {
			s.fail("open-failed", "VirtualOpenSelf returned status %d on a file that is still referenced (%s)", st, s.describe())
			return
		}
		// The failed open did not create a descriptor.
		s.settle("open-truncate-error")
		return
	}
	s.acquire(mask, 1)
	if trunc && !delivered {
		s.content = nil
	}
	if size, ok := attr.GetSizeBytes(); !ok || size != uint64(len(s.content)) {
		s.fail("open-size", "VirtualOpenSelf reported size %d, contents are %q", size, s.content)
	}
	s.settle("open")
}

func (s *seqState) opClose(mask virtual.ShareMask) {
	s.leaf.VirtualClose(mask)
	s.acquire(mask, -1)
	s.settle("close")
}

func (s *seqState) opLink() {
	st := s.leaf.Link()
	switch {
	case s.released:
		if st == virtual.StatusOK {
			s.fail("stale-link-succeeded", "Link succeeded on a file whose last reference is gone")
		}
	case s.links > 0:
		if st != virtual.StatusOK {
			s.fail("link-failed", "Link returned status %d on a file with %d links", st, s.links)
			return
		}
		s.links++
	default:
		// Unlinked but still open: the statement does not say whether
		// such a file can be linked again; follow the implementation.
		if st == virtual.StatusOK {
			s.links++
		}
	}
	s.settle("link")
}

func (s *seqState) opUnlink() {
	s.leaf.Unlink()
	s.links--
	s.settle("unlink")
}

func (s *seqState) modelResize(n int) {
	if n <= len(s.content) {
		s.content = s.content[:n:n]
	} else {
		s.content = append(s.content, make([]byte, n-len(s.content))...)
	}
}

// opWrite writes two fresh bytes. With a fault the pool file fails the
// write after having stored one byte or none: the model follows the bytes
// that really reached the pool file, which is what every later read, stat
// and upload has to be consistent with.
func (s *seqState) opWrite(off int, fault writeFault) {
	if !s.guardBlocking("write") {
		return
	}
	s.next += 2
	buf := []byte{s.next - 1, s.next}
	pf := s.pf()
	failuresBefore := pf.writeFailures
	pf.failWrite = fault
	n, st := s.leaf.VirtualWrite(ctx, buf, uint64(off))
	pf.failWrite = writeOK
	stored := len(buf)
	if pf.writeFailures > failuresBefore {
		stored = map[writeFault]int{writePartial: 1, writeNothing: 0}[fault]
		if st == virtual.StatusOK && n > stored {
			s.fail("write-reported-unstored-bytes", "VirtualWrite reported %d bytes written successfully, but the pool file stored only %d before failing", n, stored)
			return
		}
	} else if st != virtual.StatusOK || n != len(buf) {
		s.fail("write-failed", "VirtualWrite returned n=%d status=%d", n, st)
		return
	}
	if stored > 0 {
		if off+stored > len(s.content) {
			s.modelResize(off + stored)
		}
		copy(s.content[off:], buf[:stored])
	}
	s.settle("write")
}

func (s *seqState) opTruncate(size int, poolError bool) {
	if !s.guardBlocking("truncate") {
		return
	}
	pf := s.pf()
	failuresBefore := pf.truncateFailures
	pf.failTruncate = poolError
	var out virtual.Attributes
	st := s.leaf.VirtualSetAttributes(ctx, (&virtual.Attributes{}).SetSizeBytes(uint64(size)), virtual.AttributesMaskSizeBytes, &out)
	pf.failTruncate = false
	if pf.truncateFailures > failuresBefore {
		// The pool file refused: the contents are unchanged, whatever
		// the call reports.
		s.settle("truncate-error")
		return
	}
	if st != virtual.StatusOK {
		s.fail("truncate-failed", "VirtualSetAttributes(size=%d) returned status %d", size, st)
		return
	}
	s.modelResize(size)
	s.settle("truncate")
}

func (s *seqState) opAllocate(poolError bool) {
	if !s.guardBlocking("allocate") {
		return
	}
	pf := s.pf()
	failuresBefore := pf.truncateFailures
	pf.failTruncate = poolError
	st := s.leaf.VirtualAllocate(ctx, 2, 3)
	pf.failTruncate = false
	if pf.truncateFailures > failuresBefore {
		s.settle("allocate-error")
		return
	}
	if st != virtual.StatusOK {
		s.fail("allocate-failed", "VirtualAllocate returned status %d", st)
		return
	}
	if len(s.content) < 5 {
		s.modelResize(5)
	}
	s.settle("allocate")
}

// opReadError is a VirtualRead of the whole file during which the pool file
// fails: the call may fail, but it must not return wrong contents and must
// not change anything.
func (s *seqState) opReadError() {
	pf := s.pf()
	failuresBefore := pf.readFailures
	pf.failReads = 1
	buf := make([]byte, len(s.content)+2)
	n, eof, st := s.leaf.VirtualRead(ctx, buf, 0)
	pf.failReads = 0
	switch {
	case st == virtual.StatusOK && (!eof || !bytes.Equal(buf[:n], s.content)):
		s.fail("content-lost", "VirtualRead returned %q (eof=%v) successfully, the file should contain %q (%s)", buf[:n], eof, s.content, s.describe())
	case st != virtual.StatusOK && pf.readFailures == failuresBefore:
		s.fail("read-failed", "VirtualRead returned status %d although the pool file is healthy", st)
	}
	s.settle("read-error")
}

func (s *seqState) opChmod() {
	perm := virtual.PermissionsRead | virtual.PermissionsWrite
	if !s.exec {
		perm |= virtual.PermissionsExecute
	}
	var out virtual.Attributes
	st := s.leaf.VirtualSetAttributes(ctx, (&virtual.Attributes{}).SetPermissions(perm), virtual.AttributesMaskPermissions, &out)
	if st != virtual.StatusOK {
		s.fail("chmod-failed", "VirtualSetAttributes(permissions) returned status %d", st)
		return
	}
	s.exec = !s.exec
	s.settle("chmod")
}

// uploadFile is virtualBuildDirectory.UploadFile minus the directory lookup.
func uploadFile(leaf virtual.LinkableLeaf, cas *fakeCAS, fn digest.Function, delay <-chan struct{}) (digest.Digest, error) {
	return uploadFileCtx(ctx, leaf, cas, fn, delay)
}

// cancelledContext is a context that is done before the call starts (the
// client went away, the action timed out).
var cancelledContext = func() context.Context {
	c, cancel := context.WithCancel(context.Background())
	cancel()
	return c
}()

func uploadFileCtx(ctx context.Context, leaf virtual.LinkableLeaf, cas *fakeCAS, fn digest.Function, delay <-chan struct{}) (digest.Digest, error) {
	p := virtual.ApplyUploadFile{
		Context:                   ctx,
		ContentAddressableStorage: cas,
		DigestFunction:            fn,
		WritableFileUploadDelay:   delay,
	}
	if !leaf.VirtualApply(&p) {
		panic("build directory contains leaves that don't handle ApplyUploadFile")
	}
	return p.Digest, p.Err
}

// checkUpload is the upload oracle shared with the concurrent scenarios: the
// digest that was reported is the digest of the bytes the CAS received, and
// they were stored under that digest.
func checkUpload(fail failFn, fn digest.Function, reported digest.Digest, puts []casPut) (data []byte, ok bool) {
	if len(puts) != 1 {
		fail("upload-put-count", "a successful upload must store the file exactly once, saw %d Put calls", len(puts))
		return nil, false
	}
	put := puts[0]
	stored := digestOf(fn, put.data)
	if reported != stored {
		fail("upload-digest-mismatch", "UploadFile reported %s, but the %d bytes %q stored in the CAS hash to %s", reported, len(put.data), put.data, stored)
		return nil, false
	}
	if put.key != stored {
		fail("upload-key-mismatch", "the CAS was asked to store bytes hashing to %s under %s", stored, put.key)
		return nil, false
	}
	return put.data, true
}

// opUpload uploads the file; with readError the pool file fails the first
// read the upload needs (if it needs one), so that the upload has to fail and
// must give back its frozen descriptor on the error path.
//
// With cancelled the upload is issued on a context that is already done: the
// upload may fail (the fake CAS refuses a Put on a done context, like a gRPC
// client would), but "in-progress upload" ends when the call returns: a failed
// upload keeps neither a reference nor the file frozen.
func (s *seqState) opUpload(fn digest.Function, readError, cancelled bool) {
	before := s.cas.count()
	pf := s.pf()
	failuresBefore := pf.readFailures
	if readError && !s.released {
		pf.failReads = 1
	}
	c := ctx
	if cancelled {
		c = cancelledContext
	}
	d, err := uploadViaCtx(c, s.bd, s.leaf, s.cas, fn, closedChannel)
	pf.failReads = 0
	puts := s.cas.putsSince(before, "")
	if cancelled && err != nil && !s.released {
		for _, p := range puts {
			if !p.failed {
				s.fail("cancelled-upload-stored", "UploadFile on a cancelled context failed (%v) although the CAS accepted the contents", err)
			}
		}
		s.noUploadLeftovers("upload-cancelled")
		s.settle("upload-cancelled")
		return
	}
	if pf.readFailures > failuresBefore {
		// The storage failed underneath the upload: it cannot have
		// succeeded, and it must not keep a reference.
		if err == nil {
			s.fail("upload-succeeded-despite-read-error", "UploadFile reported %s although the pool file failed to deliver the contents", d)
		}
		s.noUploadLeftovers("upload-read-error")
		s.settle("upload-read-error")
		return
	}
	if s.released {
		if err == nil {
			s.fail("stale-upload-succeeded", "UploadFile succeeded on a file whose last reference is gone")
		} else if len(puts) > 0 {
			s.fail("stale-upload-put", "UploadFile stored something for a file whose last reference is gone")
		}
		s.settle("upload")
		return
	}
	if err != nil {
		s.fail("upload-failed", "UploadFile of a referenced file (%s) failed: %v", s.describe(), err)
		return
	}
	if s.bd != nil {
		// Through the build directory the transfer may be skipped if
		// the CAS has the contents already; the digest must still be
		// the one of the CURRENT contents.
		if data, ok := checkUploadStored(s.fail, fn, d, puts, s.cas.all()); ok && !bytes.Equal(data, s.content) {
			s.fail("upload-content-mismatch", "UploadFile reported the digest of %q, the file contains %q", data, s.content)
		}
		s.upContent[fn.GetEnumValue().String()] = string(s.content)
	} else if data, ok := checkUpload(s.fail, fn, d, puts); ok && !bytes.Equal(data, s.content) {
		s.fail("upload-content-mismatch", "the CAS received %q, the file contains %q", data, s.content)
	}
	s.settle("upload")
}

// noUploadLeftovers: an upload that has returned is no longer in progress, so
// the file is frozen only by the frozen readers the model knows about (a
// leaked frozen descriptor blocks every later writer forever). The same is
// established without the dump hook by the destructive final oracle.
func (s *seqState) noUploadLeftovers(op string) {
	if d, _ := virtual.VerifFilesDump(s.leaf); int(d.FrozenDescriptorsCount) != len(s.frozen) {
		s.fail("frozen-count-leak/"+op, "%s has returned and %d frozen reader(s) are open, yet the file counts %d frozen descriptors: later writers block forever", op, len(s.frozen), d.FrozenDescriptorsCount)
	}
}

// statDigest runs ApplyGetBazelOutputServiceStat and extracts the digest from
// the locator, if one is reported.
func statDigest(leaf virtual.LinkableLeaf) (d digest.Digest, present bool, err error) {
	p := virtual.ApplyGetBazelOutputServiceStat{DigestFunction: &sha256Fn}
	if !leaf.VirtualApply(&p) {
		panic("ApplyGetBazelOutputServiceStat not handled")
	}
	if p.Err != nil {
		return digest.BadDigest, false, p.Err
	}
	locator := p.Stat.GetFile().GetLocator()
	if locator == nil {
		return digest.BadDigest, false, nil
	}
	var l bazeloutputservicerev2.FileArtifactLocator
	if err := locator.UnmarshalTo(&l); err != nil {
		panic(err)
	}
	d, err = sha256Fn.NewDigestFromProto(l.Digest)
	if err != nil {
		panic(err)
	}
	return d, true, nil
}

// opStat asks for the Bazel Output Service stat; with readError the pool
// file fails the first read needed to compute a digest (if one is needed):
// the call may fail then, but it must give back its frozen descriptor and
// must not memoize anything wrong.
func (s *seqState) opStat(readError bool) {
	pf := s.pf()
	failuresBefore := pf.readFailures
	if readError && !s.released {
		pf.failReads = 1
	}
	d, present, err := statDigest(s.leaf)
	pf.failReads = 0
	if s.released {
		if err == nil {
			s.fail("stale-stat-succeeded", "GetBazelOutputServiceStat computed a digest for a file whose last reference is gone")
		}
		s.settle("stat")
		return
	}
	if err != nil {
		if pf.readFailures == failuresBefore {
			s.fail("stat-failed", "GetBazelOutputServiceStat of a referenced file failed: %v", err)
			return
		}
		s.settle("stat-read-error")
		return
	}
	// The digest is optional (it is withheld while writers exist), but
	// if one is reported it has to be the digest of the contents.
	if want := digestOf(sha256Fn, s.content); present && d != want {
		s.fail("stat-digest-mismatch", "GetBazelOutputServiceStat reported %s, contents %q hash to %s", d, s.content, want)
	}
	s.settle("stat")
}

func (s *seqState) opFrozenOpen() {
	p := virtual.ApplyOpenReadFrozen{WritableFileDelay: closedChannel}
	if !s.leaf.VirtualApply(&p) {
		panic("ApplyOpenReadFrozen not handled")
	}
	if s.released {
		if p.Err == nil {
			s.fail("stale-frozen-open-succeeded", "ApplyOpenReadFrozen succeeded on a file whose last reference is gone")
		}
		s.settle("frozen-open")
		return
	}
	if p.Err != nil || p.Reader == nil {
		s.fail("frozen-open-failed", "ApplyOpenReadFrozen of a referenced file failed: %v", p.Err)
		return
	}
	s.frozen = append(s.frozen, p.Reader)
	s.settle("frozen-open")
}

func (s *seqState) opFrozenClose() {
	r := s.frozen[len(s.frozen)-1]
	s.frozen = s.frozen[:len(s.frozen)-1]
	r.Close()
	s.settle("frozen-close")
}

// check is the non-destructive part of the oracle: as long as the file is
// referenced, everybody who can read it sees the model's contents.
func (s *seqState) check() {
	if s.released {
		// Attributes of a released file may still be requested;
		// that must not touch the pool file (the fake flags it).
		var attr virtual.Attributes
		s.leaf.VirtualGetAttributes(ctx, virtual.AttributesMaskSizeBytes|virtual.AttributesMaskLinkCount, &attr)
		return
	}
	var attr virtual.Attributes
	s.leaf.VirtualGetAttributes(ctx, virtual.AttributesMaskSizeBytes|virtual.AttributesMaskLinkCount, &attr)
	if size, ok := attr.GetSizeBytes(); !ok || size != uint64(len(s.content)) {
		s.fail("attr-size", "VirtualGetAttributes reports size %d, contents are %q", size, s.content)
		return
	}
	buf := make([]byte, len(s.content)+2)
	n, eof, st := s.leaf.VirtualRead(ctx, buf, 0)
	if st != virtual.StatusOK || !eof || !bytes.Equal(buf[:n], s.content) {
		s.fail("content-lost", "VirtualRead returned %q (eof=%v status=%d), the file should contain %q (%s)", buf[:n], eof, st, s.content, s.describe())
		return
	}
	for i, r := range s.frozen {
		buf := make([]byte, len(s.content))
		if n, _ := r.ReadAt(buf, 0); !bytes.Equal(buf[:n], s.content) {
			s.fail("frozen-content", "frozen reader %d returned %q, the file should contain %q", i, buf[:n], s.content)
			return
		}
	}
}

// final is the destructive oracle, run on a replay of every distinct state:
// drop every remaining reference and verify that the storage is released at
// the very last step, exactly once, and that late calls fail cleanly.
func (s *seqState) final() {
	// NFS: bits acquired by separate opens are first given back by merged
	// closes (r|w), the remainder bit by bit.
	for _, mask := range []virtual.ShareMask{3, 1, 2} {
		for s.canClose(mask) && !s.c.Failed() {
			s.opClose(mask)
		}
	}
	for len(s.frozen) > 0 && !s.c.Failed() {
		s.opFrozenClose()
	}
	for s.links > 0 && !s.c.Failed() {
		s.opUnlink()
	}
	if s.c.Failed() {
		return
	}
	if !s.released {
		panic("model error: references remain")
	}
	// Calls that can legitimately arrive late. (The links were dropped on
	// the file itself, behind the directory's back: late calls are therefore
	// issued on the file, not through the directory entry, which would
	// have disappeared together with the link.)
	s.bd = nil
	s.opLink()
	s.opOpen(virtual.ShareMaskRead, false, false)
	s.opOpen(virtual.ShareMaskWrite, true, false)
	s.opUpload(sha256Fn, false, false)
	s.opFrozenOpen()
	s.opStat(false)
	s.check()
	if pf := s.pf(); !s.c.Failed() && (pf.closed != 1 || pf.usesAfterClose != 0) {
		s.fail("final-release", "after dropping every reference the pool file was closed %d times and used %d times after that", pf.closed, pf.usesAfterClose)
	}
}

var digestFunctions = []struct {
	name string
	fn   digest.Function
}{{"sha256", sha256Fn}, {"md5", md5Fn}}

// key renders implementation state (dump hook + fakes) and model state.
func (s *seqState) key() string {
	d, _ := virtual.VerifFilesDump(s.leaf)
	pf := s.pf()
	cached := "none"
	if d.CachedDigest != digest.BadDigest {
		cached = "stale"
	search:
		for _, f := range digestFunctions {
			if d.CachedDigest == digestOf(f.fn, pf.data) {
				cached = "valid:" + f.name
				break
			}
			for k := 0; k < len(pf.data); k++ {
				if d.CachedDigest == digestOf(f.fn, pf.data[:k]) {
					cached = fmt.Sprintf("stale-prefix%d:%s", k, f.name)
					break search
				}
			}
		}
	}
	up := ""
	if s.upContent != nil {
		var fns []string
		for f := range s.upContent {
			fns = append(fns, f)
		}
		sort.Strings(fns)
		for _, f := range fns {
			up += fmt.Sprintf(" up{%s current=%v}", f, s.upContent[f] == string(s.content))
		}
	}
	return up + fmt.Sprintf("impl{rc=%d w=%d fz=%d nil=%v size=%d x=%v nmw=%v ufw=%v cached=%s hl=%d} pool{closed=%d uac=%d data=%s} model{l=%d d=%v fz=%d c=%s x=%v rel=%v}",
		d.ReferenceCount, d.WritableDescriptorsCount, d.FrozenDescriptorsCount, d.FileIsNil, d.Size, d.IsExecutable,
		d.NoMoreWritersWakeupSet, d.UnfreezeWakeupSet, cached, d.HandleLinkCount,
		pf.closed, pf.usesAfterClose, canonical(pf.data),
		s.links, s.desc[1:], len(s.frozen), canonical(s.content), s.exec, s.released)
}

func seqOp(name string, enabled func(s *seqState) bool, do func(s *seqState)) mc.SeqOp {
	op := mc.SeqOp{Name: name, Do: func(c *mc.SeqCtx, st any) { do(st.(*seqState)) }}
	if enabled != nil {
		op.Enabled = func(st any) bool { return enabled(st.(*seqState)) }
	}
	return op
}

func seqOps() []mc.SeqOp {
	live := func(s *seqState) bool { return !s.released }
	// Mutations of the contents block while a frozen reader exists; a
	// sequential driver cannot issue them then.
	canMutate := func(s *seqState) bool { return !s.released && len(s.frozen) == 0 }
	canWrite := func(s *seqState) bool { return canMutate(s) && s.writers() > 0 }
	maskNames := map[virtual.ShareMask]string{1: "r", 2: "w", 3: "rw"}
	var ops []mc.SeqOp
	for mask := virtual.ShareMask(1); mask <= 3; mask++ {
		mask := mask
		ops = append(ops, seqOp("open "+maskNames[mask], nil, func(s *seqState) { s.opOpen(mask, false, false) }))
	}
	ops = append(ops, seqOp("open w+trunc", func(s *seqState) bool { return s.released || len(s.frozen) == 0 }, func(s *seqState) { s.opOpen(virtual.ShareMaskWrite, true, false) }))
	ops = append(ops, seqOp("open w+trunc (pool truncate error)", canMutate, func(s *seqState) { s.opOpen(virtual.ShareMaskWrite, true, true) }))
	for mask := virtual.ShareMask(1); mask <= 3; mask++ {
		mask := mask
		ops = append(ops, seqOp("close "+maskNames[mask], func(s *seqState) bool { return s.canClose(mask) }, func(s *seqState) { s.opClose(mask) }))
	}
	ops = append(ops,
		seqOp("link", nil, (*seqState).opLink),
		seqOp("unlink", func(s *seqState) bool { return s.links > 0 }, (*seqState).opUnlink),
		seqOp("write@0", canWrite, func(s *seqState) { s.opWrite(0, writeOK) }),
		seqOp("write@2", canWrite, func(s *seqState) { s.opWrite(2, writeOK) }),
		seqOp("write@0 (pool stores 1 byte, then error)", canWrite, func(s *seqState) { s.opWrite(0, writePartial) }),
		seqOp("write@2 (pool stores 1 byte, then error)", canWrite, func(s *seqState) { s.opWrite(2, writePartial) }),
		seqOp("write@0 (pool error, nothing stored)", canWrite, func(s *seqState) { s.opWrite(0, writeNothing) }),
		seqOp("truncate 0", canMutate, func(s *seqState) { s.opTruncate(0, false) }),
		seqOp("truncate 1", canMutate, func(s *seqState) { s.opTruncate(1, false) }),
		seqOp("truncate 3", canMutate, func(s *seqState) { s.opTruncate(3, false) }),
		seqOp("truncate 1 (pool truncate error)", canMutate, func(s *seqState) { s.opTruncate(1, true) }),
		seqOp("truncate 3 (pool truncate error)", canMutate, func(s *seqState) { s.opTruncate(3, true) }),
		seqOp("allocate [2,5)", canWrite, func(s *seqState) { s.opAllocate(false) }),
		seqOp("allocate [2,5) (pool truncate error)", canWrite, func(s *seqState) { s.opAllocate(true) }),
		seqOp("read (pool read error)", live, (*seqState).opReadError),
		seqOp("chmod", live, (*seqState).opChmod),
		seqOp("upload sha256", nil, func(s *seqState) { s.opUpload(sha256Fn, false, false) }),
		seqOp("upload md5", nil, func(s *seqState) { s.opUpload(md5Fn, false, false) }),
		seqOp("upload sha256 (pool read error)", live, func(s *seqState) { s.opUpload(sha256Fn, true, false) }),
		seqOp("upload sha256 (cancelled context)", live, func(s *seqState) { s.opUpload(sha256Fn, false, true) }),
		seqOp("stat", nil, func(s *seqState) { s.opStat(false) }),
		seqOp("stat (pool read error)", live, func(s *seqState) { s.opStat(true) }),
		seqOp("frozen-open", nil, (*seqState).opFrozenOpen),
		seqOp("frozen-close", func(s *seqState) bool { return len(s.frozen) > 0 }, (*seqState).opFrozenClose),
	)
	return ops
}

func seqs() []*mc.Seq {
	var r []*mc.Seq
	for _, cfg := range []seqCfg{
		{name: "seq-fuse"},
		{name: "seq-fuse-created-rw", initShare: virtual.ShareMaskRead | virtual.ShareMaskWrite},
		{name: "seq-nfs", nfs: true},
		{name: "seq-nfs-created-w", nfs: true, initShare: virtual.ShareMaskWrite},
		{name: "seq-nfs-created-rw", nfs: true, initShare: virtual.ShareMaskRead | virtual.ShareMaskWrite},
	} {
		cfg := cfg
		depth := map[string]int{"quick": 5, "thorough": 8}
		r = append(r, &mc.Seq{
			Name:   cfg.name,
			Props:  []string{prop},
			New:    func(c *mc.SeqCtx) any { return newSeqState(c, cfg) },
			Ops:    seqOps(),
			Key:    func(s any) string { return s.(*seqState).key() },
			Check:  func(c *mc.SeqCtx, s any) { s.(*seqState).check() },
			Final:  func(c *mc.SeqCtx, s any) { s.(*seqState).final() },
			Depth:  depth,
			Panics: []string{prop},
		})
	}
	return append(r, dirSeqs()...)
}
