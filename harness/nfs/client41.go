package nfs

import (
	"bytes"
	"fmt"
	"strings"
	"time"

	"verif/mc"

	"github.com/buildbarn/go-xdr/pkg/protocols/nfsv4"
)

// client41 is the bookkeeper of one NFSv4.1 client.
type client41 struct {
	w     *world
	owner string

	verifier byte
	pendOK   bool
	pendID   uint64
	pendVerf byte
	// csNext is the next CREATE_SESSION sequence number per client ID.
	csNext map[uint64]uint32

	haveID bool
	id     uint64
	idVerf byte

	alive     bool
	lastRenew time.Time
	// lastContact: see client40.
	lastContact time.Time

	sessions []*session41
	opens    map[string]map[string]*open41
	older    []*open41

	// cidField selects what the NEXT requests put into the clientid field
	// of open_owner4 / lock_owner4 arguments (OPEN, LOCK with
	// open_to_lock_owner4, LOCKT). In NFSv4.1 the client is identified by
	// the session; the field carries no information and the server must
	// ignore it (RFC 8881, sections 18.10.3, 18.11.3, 18.16.3: "the client
	// ID ... is ignored"), so the reference model identifies owners by
	// (session's client, owner bytes) whatever the field says.
	cidField cidMode
}

// cidMode: contents of the clientid field inside state_owner4 arguments.
type cidMode int

const (
	cidSession cidMode = iota // the session's client ID (what Linux sends)
	cidZero                   // 0 (what clients that follow the RFC's hint send)
	cidOther                  // another client's ID (or a never-issued one)
)

func (m cidMode) String() string {
	return [...]string{"", " owner.clientid=0", " owner.clientid=other"}[m]
}

var cidModes = []cidMode{cidSession, cidZero, cidOther}

// ownerCID is the value of the clientid field according to c.cidField.
func (c *client41) ownerCID() uint64 {
	switch c.cidField {
	case cidZero:
		return 0
	case cidOther:
		for _, oc := range sortedClients41(c.w) {
			if oc != c && oc.haveID && oc.id != c.id {
				return oc.id
			}
		}
		for _, oc := range sortedClients40(c.w) {
			if oc.haveID && oc.id != c.id {
				return oc.id
			}
		}
		return c.id ^ 0x5a5a00
	}
	return c.id
}

// withCID runs fn with the clientid field of owner arguments set to m.
func (c *client41) withCID(m cidMode, fn func()) {
	old := c.cidField
	c.cidField = m
	defer func() { c.cidField = old }()
	fn()
}

type session41 struct {
	id    nfsv4.Sessionid4
	seq   [2]uint32 // last sequence number used per slot
	valid bool
	// nocache: every SEQUENCE of this session is sent with
	// sa_cachethis=false (world.uncached41 at the time the session was
	// created).
	nocache bool
}

type open41 struct {
	ownerName string
	leaf      *fakeLeaf
	sid       nfsv4.Stateid4
	bits      uint32
	valid     bool
	gone      bool
	locks     map[string]*lock41
}

type lock41 struct {
	sid   nfsv4.Stateid4
	bits  uint32
	valid bool
	gone  bool
}

func (w *world) client41(owner string) *client41 {
	c, ok := w.c41[owner]
	if !ok {
		c = &client41{w: w, owner: owner, csNext: map[uint64]uint32{}, opens: map[string]map[string]*open41{}}
		w.c41[owner] = c
	}
	return c
}

func (c *client41) touch() { c.lastContact = c.w.clk.Now() }

func (c *client41) renew() {
	c.alive = true
	c.lastRenew = c.w.clk.Now()
}

func (c *client41) entitled(op *open41) bool { return c.haveID && c.alive && op.valid && !op.gone }

func (c *client41) allOpens() []*open41 {
	var r []*open41
	for _, on := range sortedKeys(c.opens) {
		for _, fn := range sortedKeys(c.opens[on]) {
			r = append(r, c.opens[on][fn])
		}
	}
	return append(r, c.older...)
}

func (c *client41) session() *session41 {
	for i := len(c.sessions) - 1; i >= 0; i-- {
		if c.sessions[i].valid {
			return c.sessions[i]
		}
	}
	return nil
}

func (w *world) anySession41() *client41 {
	// Prefer a session the server still knows (the bookkeeper's flag may be
	// stale after a poke that made the server collect an expired client).
	for _, c := range sortedClients41(w) {
		if s := c.session(); s != nil {
			if _, ok := w.names41["sess:"+fmt.Sprintf("%x", s.id[:])]; ok {
				return c
			}
		}
	}
	for _, c := range sortedClients41(w) {
		if c.session() != nil {
			return c
		}
	}
	return nil
}

func (c *client41) sidName(sid nfsv4.Stateid4) string {
	if n, ok := c.w.names41[sidKey41(c.id, sid)]; ok {
		return fmt.Sprintf("%s@%d", n, sid.Seqid)
	}
	return "gone"
}

func (c *client41) key() string {
	w := c.w
	var b strings.Builder
	name := func(id uint64) string {
		if n, ok := w.names41[cidKey(id)]; ok {
			return n
		}
		return "gone"
	}
	fmt.Fprintf(&b, "C41 %s v=%d", c.owner, c.verifier)
	if c.pendOK {
		fmt.Fprintf(&b, " pend=%s/%d cs=%d", name(c.pendID), c.pendVerf, c.csNext[c.pendID])
	}
	if c.haveID {
		age := "dead"
		if c.alive {
			age = w.clk.Now().Sub(c.lastRenew).String()
		}
		fmt.Fprintf(&b, " id=%s/%d cs=%d renewed=%s %s", name(c.id), c.idVerf, c.csNext[c.id], age, w.contactKey(1, c.lastContact))
	}
	b.WriteString("\n")
	for i, s := range c.sessions {
		n, ok := w.names41["sess:"+fmt.Sprintf("%x", s.id[:])]
		if !ok {
			n = "gone"
		}
		fmt.Fprintf(&b, " session%d %s seq=%v valid=%v\n", i, n, s.seq, s.valid)
	}
	for _, op := range c.allOpens() {
		fmt.Fprintf(&b, " open %s leaf=%s sid=%s bits=%d valid=%v gone=%v\n", op.ownerName, op.leaf.id, c.sidName(op.sid), op.bits, op.valid, op.gone)
		for _, ln := range sortedKeys(op.locks) {
			l := op.locks[ln]
			fmt.Fprintf(&b, "  lock %s sid=%s bits=%d valid=%v gone=%v\n", ln, c.sidName(l.sid), l.bits, l.valid, l.gone)
		}
	}
	return b.String()
}

func (c *client41) sync(f failer) {
	w := c.w
	if c.haveID {
		if _, ok := w.names41["confirmed:"+cidKey(c.id)[4:]]; !ok {
			if c.alive {
				f.FailP("C18", "client-forgotten", "NFSv4.1 client %s renewed its lease %s ago (lease time %s), but the server no longer has its confirmed record", c.owner, w.clk.Now().Sub(c.lastRenew), lease)
			}
			c.alive = false
			w.locks.releaseClient(1, c.owner)
		}
	}
	for _, s := range c.sessions {
		if _, ok := w.names41["sess:"+fmt.Sprintf("%x", s.id[:])]; !ok {
			s.valid = false
		}
	}
	for _, op := range c.allOpens() {
		if op.gone {
			continue
		}
		if _, ok := w.names41[sidKey41(c.id, op.sid)]; !ok {
			if c.entitled(op) {
				f.FailP("C18", "state-forgotten", "NFSv4.1 client %s owner %s is entitled to its open of %s, but the server no longer knows the state ID", c.owner, op.ownerName, op.leaf.id)
			}
			op.gone = true
			for _, ln := range sortedKeys(op.locks) {
				op.locks[ln].gone = true
			}
			c.releaseModelLocks(op)
			continue
		}
		for _, ln := range sortedKeys(op.locks) {
			l := op.locks[ln]
			if l.gone {
				continue
			}
			if _, ok := w.names41[sidKey41(c.id, l.sid)]; !ok {
				if c.entitled(op) && l.valid {
					f.FailP("C18", "lock-state-forgotten", "NFSv4.1 client %s lock-owner %s is entitled to its lock state on %s, but the server no longer knows the state ID", c.owner, ln, op.leaf.id)
				}
				l.gone = true
			}
		}
	}
}

// releaseModelLocks: closing an open releases the locks that its
// lock-owners hold on the file.
func (c *client41) releaseModelLocks(op *open41) {
	for _, ln := range sortedKeys(op.locks) {
		c.w.locks.releaseOwner(op.leaf.id, ownerKey(1, c.owner, ln))
	}
}

func (c *client41) checkEntitlements(f failer) {
	for _, op := range c.allOpens() {
		if !c.entitled(op) {
			continue
		}
		requireEntitledOpen(f, fmt.Sprintf("open state ID of NFSv4.1 client %s owner %s", c.owner, op.ownerName), op.leaf, op.bits)
		for _, ln := range sortedKeys(op.locks) {
			if l := op.locks[ln]; l.valid && !l.gone {
				requireEntitledOpen(f, fmt.Sprintf("lock state ID of NFSv4.1 client %s lock-owner %s", c.owner, ln), op.leaf, l.bits)
			}
		}
	}
}

// ---------------------------------------------------------------------------

func (c *client41) exchangeID(f failer, verifier byte) {
	c.touch()
	res := c.w.compound(1, "EXCHANGE_ID", &nfsv4.NfsArgop4_OP_EXCHANGE_ID{OpexchangeId: nfsv4.ExchangeId4args{
		EiaClientowner:  nfsv4.ClientOwner4{CoVerifier: nfsv4.Verifier4{verifier}, CoOwnerid: []byte(c.owner)},
		EiaStateProtect: &nfsv4.StateProtect4A_SP4_NONE{},
	}})
	c.verifier = verifier
	ok, is := res.Resarray[0].(*nfsv4.NfsResop4_OP_EXCHANGE_ID).OpexchangeId.(*nfsv4.ExchangeId4res_NFS4_OK)
	if !is {
		f.FailP("C18", "exchange-id-failed", "EXCHANGE_ID failed with %d", res.Status)
		return
	}
	c.pendOK, c.pendID, c.pendVerf = true, ok.EirResok4.EirClientid, verifier
	if ok.EirResok4.EirFlags&nfsv4.EXCHGID4_FLAG_CONFIRMED_R == 0 {
		c.csNext[c.pendID] = ok.EirResok4.EirSequenceid
	}
}

func createSessionArgs(id uint64, seq uint32) nfsv4.NfsArgop4 {
	attrs := nfsv4.ChannelAttrs4{CaMaxrequestsize: 1 << 16, CaMaxresponsesize: 1 << 16, CaMaxresponsesizeCached: 1 << 12, CaMaxoperations: 8, CaMaxrequests: 2}
	return &nfsv4.NfsArgop4_OP_CREATE_SESSION{OpcreateSession: nfsv4.CreateSession4args{
		CsaClientid: id, CsaSequence: seq, CsaForeChanAttrs: attrs, CsaBackChanAttrs: attrs,
	}}
}

// createSession sends CREATE_SESSION for the given client ID.
func (c *client41) createSession(f failer, id uint64, verf byte) nfsv4.Nfsstat4 {
	c.touch()
	w := c.w
	seq := c.csNext[id]
	if mc.Active("C19") {
		before := w.snapshot()
		res := w.compound(1, "CREATE_SESSION(seq+1)", createSessionArgs(id, seq+1))
		if _, known := w.names41[cidKey(id)]; known && res.Status != nfsv4.NFS4ERR_SEQ_MISORDERED {
			f.FailP("C19", "misordered-accepted/CREATE_SESSION", "CREATE_SESSION with a sequence number one beyond the next one was answered %d instead of NFS4ERR_SEQ_MISORDERED", res.Status)
		}
		if after := w.snapshot(); after != before {
			f.FailP("C19", "misordered-side-effect/CREATE_SESSION", "misordered CREATE_SESSION changed state:\n--- before\n%s\n--- after\n%s", before, after)
		}
	}
	res := w.compound(1, "CREATE_SESSION", createSessionArgs(id, seq))
	if mc.Active("C19") {
		before := w.snapshot()
		res2 := w.compound(1, "CREATE_SESSION(retransmitted)", createSessionArgs(id, seq))
		if res.Status == nfsv4.NFS4_OK && !bytes.Equal(encodeRes(res), encodeRes(res2)) {
			f.FailP("C19", "retransmission-different-reply/CREATE_SESSION", "retransmitted CREATE_SESSION: first reply status %d, second reply status %d, XDR bytes differ", res.Status, res2.Status)
		}
		if after := w.snapshot(); after != before {
			f.FailP("C19", "retransmission-side-effect/CREATE_SESSION", "retransmitted CREATE_SESSION (first reply %d) changed state:\n--- before\n%s\n--- after\n%s", res.Status, before, after)
		}
	}
	ok, is := res.Resarray[0].(*nfsv4.NfsResop4_OP_CREATE_SESSION).OpcreateSession.(*nfsv4.CreateSession4res_NFS4_OK)
	if !is {
		return res.Status
	}
	c.csNext[id] = seq + 1
	if !c.haveID || c.id != id {
		if c.haveID {
			// A new incarnation replaces the old one.
			w.locks.releaseClient(1, c.owner)
			for _, op := range c.allOpens() {
				op.valid = false
				for _, l := range op.locks {
					l.valid = false
				}
			}
			for _, s := range c.sessions {
				s.valid = false
			}
		}
		c.haveID, c.id, c.idVerf = true, id, verf
	}
	c.sessions = append(c.sessions, &session41{id: ok.CsrResok4.CsrSessionid, valid: true, nocache: w.uncached41})
	c.renew()
	return res.Status
}

func sequenceOp(s *session41, slot uint32, seq uint32) nfsv4.NfsArgop4 {
	return &nfsv4.NfsArgop4_OP_SEQUENCE{Opsequence: nfsv4.Sequence4args{SaSessionid: s.id, SaSequenceid: seq, SaSlotid: slot, SaHighestSlotid: 1, SaCachethis: !s.nocache}}
}

// sequence sends a SEQUENCE-wrapped compound on slot 0 of the latest
// session, with the C19 variants around it. It returns nil if the client
// has no session.
func (c *client41) sequence(f failer, what string, ops ...nfsv4.NfsArgop4) *nfsv4.Compound4res {
	return c.sequenceOn(f, 0, what, ops...)
}

func (c *client41) sequenceOn(f failer, slot uint32, what string, ops ...nfsv4.NfsArgop4) *nfsv4.Compound4res {
	c.touch()
	w := c.w
	s := c.session()
	if s == nil {
		return nil
	}
	next := s.seq[slot] + 1
	build := func(seq uint32) []nfsv4.NfsArgop4 {
		return append([]nfsv4.NfsArgop4{sequenceOp(s, slot, seq)}, ops...)
	}
	_, sessionKnown := w.names41["sess:"+fmt.Sprintf("%x", s.id[:])]
	if mc.Active("C19") && sessionKnown {
		before := w.snapshot()
		for _, seq := range []uint32{next + 1, next - 2} {
			res := w.compound(1, what+"(misordered)", build(seq)...)
			if res.Status != nfsv4.NFS4ERR_SEQ_MISORDERED {
				f.FailP("C19", "misordered-accepted/SEQUENCE", "%s with slot sequence number %d (next is %d) was answered %d instead of NFS4ERR_SEQ_MISORDERED", what, seq, next, res.Status)
			}
		}
		if after := w.snapshot(); after != before {
			f.FailP("C19", "misordered-side-effect/SEQUENCE", "%s with a misordered slot sequence number changed state:\n--- before\n%s\n--- after\n%s", what, before, after)
		}
	}
	res := w.compound(1, what, build(next)...)
	if opStatus(res, 0) != nfsv4.NFS4_OK {
		return res
	}
	s.seq[slot] = next
	c.renew()
	if mc.Active("C19") {
		before := w.snapshot()
		res2 := w.compound(1, what+"(retransmitted)", build(next)...)
		if !bytes.Equal(encodeRes(res), encodeRes(res2)) {
			// A request sent with sa_cachethis=false that is
			// retransmitted AFTER the original completed may be
			// answered NFS4ERR_RETRY_UNCACHED_REP instead of the
			// original reply (RFC 8881, section 2.10.6.1.3): the
			// server still recognises it as a retransmission and
			// does not execute it again (checked below).
			if !(s.nocache && res2.Status == nfsv4.NFS4ERR_RETRY_UNCACHED_REP) {
				f.FailP("C19", "retransmission-different-reply/SEQUENCE", "retransmitted %s (sa_cachethis=%v): first reply status %d (%d results), second reply status %d (%d results), XDR bytes differ", what, !s.nocache, res.Status, len(res.Resarray), res2.Status, len(res2.Resarray))
			}
		}
		// Same slot and number, different content.
		// (once with the same number of operations, once with more)
		for _, n := range []int{len(ops), len(ops) + 2} {
			other := []nfsv4.NfsArgop4{sequenceOp(s, slot, next)}
			for i := 0; i < n; i++ {
				other = append(other, &nfsv4.NfsArgop4_OP_GETFH{})
			}
			res3 := w.compound(1, what+"(false retry)", other...)
			if res3.Status != nfsv4.NFS4ERR_SEQ_FALSE_RETRY {
				f.FailP("C19", "false-retry-answered/SEQUENCE", "a different request (%d x GETFH) sent with the slot and sequence number of %s was answered %d (%d results) instead of NFS4ERR_SEQ_FALSE_RETRY", n, what, res3.Status, len(res3.Resarray))
			}
		}
		// Same slot and number, and the SAME leading operations as the
		// original: strict extensions (the original plus appended
		// operations) and the strict prefix (the original without its
		// last operation). A server that compares a false retry with the
		// cached reply operation by operation must still notice the
		// different length. If the original succeeded (NFS4_OK: every
		// operation was evaluated, so the cached reply has exactly as
		// many results as the original had operations) a request of
		// another length is provably a different request and must never
		// be answered with the original's cached reply. If the original
		// FAILED, its evaluation stopped early and the cached reply is
		// legitimately shorter than the request (RFC 8881, section
		// 2.10.6.1.3.1): the server cannot tell these variants from a
		// retransmission, so the cached reply is accepted as well.
		type variant struct {
			name string
			ops  []nfsv4.NfsArgop4
		}
		var variants []variant
		if 1+len(ops)+1 <= maxOps41 {
			variants = append(variants, variant{"the original plus PUTROOTFH", append(build(next), &nfsv4.NfsArgop4_OP_PUTROOTFH{})})
		}
		if len(ops) > 0 && 1+len(ops)+2 <= maxOps41 {
			variants = append(variants, variant{"the original plus a copy of its last operation and GETFH", append(build(next), ops[len(ops)-1], &nfsv4.NfsArgop4_OP_GETFH{})})
		}
		if len(ops) > 0 {
			all := build(next)
			variants = append(variants, variant{"the original without its last operation", all[:len(all)-1]})
		}
		for _, v := range variants {
			res4 := w.compound(1, what+"(false retry: "+v.name+")", v.ops...)
			switch {
			case res4.Status == nfsv4.NFS4ERR_SEQ_FALSE_RETRY:
			case s.nocache && res4.Status == nfsv4.NFS4ERR_RETRY_UNCACHED_REP:
			case res.Status != nfsv4.NFS4_OK && bytes.Equal(encodeRes(res), encodeRes(res4)):
				// Failed original: indistinguishable from a
				// retransmission.
			default:
				f.FailP("C19", "false-retry-answered/SEQUENCE", "a different request (%s: %d operations instead of %d) sent with the slot and sequence number of %s (answered %d, %d results) was answered %d (%d results, identical to the original's reply: %v) instead of NFS4ERR_SEQ_FALSE_RETRY", v.name, len(v.ops), 1+len(ops), what, res.Status, len(res.Resarray), res4.Status, len(res4.Resarray), bytes.Equal(encodeRes(res), encodeRes(res4)))
			}
		}
		if after := w.snapshot(); after != before {
			f.FailP("C19", "retransmission-side-effect/SEQUENCE", "retransmitted %s (first reply %d) changed state:\n--- before\n%s\n--- after\n%s", what, res.Status, before, after)
		}
	}
	return res
}

// maxOps41 is ca_maxoperations of the sessions (newWorld, createSessionArgs).
const maxOps41 = 8

type claim41 int

const (
	claimNull claim41 = iota
	claimFH
	claimPrevious
)

func (k claim41) String() string { return [...]string{"CLAIM_NULL", "CLAIM_FH", "CLAIM_PREVIOUS"}[k] }

func (c *client41) open(f failer, ownerName, file string, access uint32, how openHow, claim claim41) nfsv4.Nfsstat4 {
	_, st := c.openTail(f, ownerName, file, access, how, claim)
	return st
}

// openTail sends {SEQUENCE, PUTROOTFH|PUTFH, OPEN, GETFH, tail...} and books
// the OPEN; the results of the tail are left to the caller (they start at
// index 4 of the reply).
func (c *client41) openTail(f failer, ownerName, file string, access uint32, how openHow, claim claim41, tail ...nfsv4.NfsArgop4) (*nfsv4.Compound4res, nfsv4.Nfsstat4) {
	w := c.w
	if c.opens[ownerName] == nil {
		c.opens[ownerName] = map[string]*open41{}
	}
	var first nfsv4.NfsArgop4 = &nfsv4.NfsArgop4_OP_PUTROOTFH{}
	var cl nfsv4.OpenClaim4 = &nfsv4.OpenClaim4_CLAIM_NULL{File: file}
	if claim != claimNull {
		var leaf *fakeLeaf
		if prev := c.opens[ownerName][file]; prev != nil {
			leaf = prev.leaf
		} else {
			leaf = w.fs.linked[file]
		}
		if leaf == nil {
			return nil, nfsv4.NFS4ERR_NOENT
		}
		first = putfh(leaf.handle)
		if claim == claimFH {
			cl = &nfsv4.OpenClaim4_CLAIM_FH{}
		} else {
			cl = &nfsv4.OpenClaim4_CLAIM_PREVIOUS{DelegateType: nfsv4.OPEN_DELEGATE_NONE}
		}
	}
	what := fmt.Sprintf("OPEN41(%s,%s,%s%s)", c.owner, ownerName, file, c.cidField)
	if len(tail) > 0 {
		what += fmt.Sprintf("+%d more operations", len(tail))
	}
	res := c.sequence(f, what, append([]nfsv4.NfsArgop4{first, &nfsv4.NfsArgop4_OP_OPEN{Opopen: nfsv4.Open4args{
		ShareAccess: access, ShareDeny: nfsv4.OPEN4_SHARE_DENY_NONE,
		Owner: nfsv4.OpenOwner4{Clientid: c.ownerCID(), Owner: []byte(ownerName)}, Openhow: openflag(how), Claim: cl,
	}}, &nfsv4.NfsArgop4_OP_GETFH{}}, tail...)...)
	if res == nil {
		return nil, nfsv4.NFS4ERR_BADSESSION
	}
	st := opStatus(res, 2)
	if len(res.Resarray) < 4 || st != nfsv4.NFS4_OK || opStatus(res, 3) != nfsv4.NFS4_OK {
		return res, st
	}
	ok := res.Resarray[2].(*nfsv4.NfsResop4_OP_OPEN).Opopen.(*nfsv4.Open4res_NFS4_OK)
	fh := res.Resarray[3].(*nfsv4.NfsResop4_OP_GETFH).Opgetfh.(*nfsv4.Getfh4res_NFS4_OK)
	leaf := w.fs.leafByHandle(fh.Resok4.Object)
	if leaf == nil {
		f.FailP("C18", "open-unknown-filehandle", "OPEN returned unknown file handle %q", fh.Resok4.Object)
		return res, st
	}
	if cur := c.opens[ownerName][file]; cur != nil && cur.leaf == leaf && cur.valid && !cur.gone && cur.sid.Other == ok.Resok4.Stateid.Other {
		cur.bits |= access
		cur.sid = ok.Resok4.Stateid
	} else {
		if cur != nil {
			c.older = append(c.older, cur)
		}
		c.opens[ownerName][file] = &open41{ownerName: ownerName, leaf: leaf, sid: ok.Resok4.Stateid, bits: access, valid: true, locks: map[string]*lock41{}}
	}
	return res, st
}

// ---------------------------------------------------------------------------
// The current state ID across a change of the current filehandle.
//
// OPEN, OPEN_DOWNGRADE, LOCK and LOCKU make their state ID the COMPOUND's
// "current state ID"; every operation that replaces the current filehandle
// (PUTFH, PUTROOTFH, LOOKUP, RESTOREFH of another saved pair, ...) replaces
// it as well (RFC 8881, section 16.2.3.1.2). A later operation that presents
// the special current state ID while the current filehandle is ANOTHER file
// must therefore not reach the state of the first file: "state IDs are
// honoured only for the file ... they were issued for".

// csidUser is one operation that presents the current state ID.
type csidUser struct {
	name string
	// io: READ / WRITE / SETATTR. Since the filehandle-changing
	// operations set the current state ID to the anonymous one, these may
	// also be served like anonymous I/O on the NEW current file; the
	// state-changing operations can only be refused.
	io bool
	op func(c *client41) nfsv4.NfsArgop4
}

func csidUsers() []csidUser {
	return []csidUser{
		{"READ", true, func(c *client41) nfsv4.NfsArgop4 { return ioOp(ioRead, currentSID) }},
		{"WRITE", true, func(c *client41) nfsv4.NfsArgop4 { return ioOp(ioWrite, currentSID) }},
		{"SETATTR", true, func(c *client41) nfsv4.NfsArgop4 { return ioOp(ioSetattr, currentSID) }},
		{"CLOSE", false, func(c *client41) nfsv4.NfsArgop4 {
			return &nfsv4.NfsArgop4_OP_CLOSE{Opclose: nfsv4.Close4args{OpenStateid: currentSID}}
		}},
		{"OPEN_DOWNGRADE", false, func(c *client41) nfsv4.NfsArgop4 {
			return &nfsv4.NfsArgop4_OP_OPEN_DOWNGRADE{OpopenDowngrade: nfsv4.OpenDowngrade4args{OpenStateid: currentSID, ShareAccess: accRead}}
		}},
		{"LOCK(open_to_lock_owner4)", false, func(c *client41) nfsv4.NfsArgop4 {
			return &nfsv4.NfsArgop4_OP_LOCK{Oplock: nfsv4.Lock4args{Locktype: nfsv4.READ_LT, Offset: 7, Length: 1,
				Locker: &nfsv4.Locker4_TRUE{OpenOwner: nfsv4.OpenToLockOwner4{OpenStateid: currentSID, LockOwner: nfsv4.LockOwner4{Clientid: c.id, Owner: []byte("L8")}}}}}
		}},
		{"LOCK(exist_lock_owner4)", false, func(c *client41) nfsv4.NfsArgop4 {
			return &nfsv4.NfsArgop4_OP_LOCK{Oplock: nfsv4.Lock4args{Locktype: nfsv4.READ_LT, Offset: 7, Length: 1,
				Locker: &nfsv4.Locker4_FALSE{LockOwner: nfsv4.ExistLockOwner4{LockStateid: currentSID}}}}
		}},
		{"LOCKU", false, func(c *client41) nfsv4.NfsArgop4 {
			return &nfsv4.NfsArgop4_OP_LOCKU{Oplocku: nfsv4.Locku4args{Locktype: nfsv4.WRITE_LT, LockStateid: currentSID, Offset: 0, Length: 1}}
		}},
	}
}

func lookupOp(name string) nfsv4.NfsArgop4 {
	return &nfsv4.NfsArgop4_OP_LOOKUP{Oplookup: nfsv4.Lookup4args{Objname: name}}
}

// csidWatch remembers the counters of the file the current state ID was
// issued for (a) and of the file that is the current filehandle when it is
// presented (b).
type csidWatch struct {
	a, b      *fakeLeaf
	aIO, bAll string
}

func watchCSID(a, b *fakeLeaf) csidWatch {
	return csidWatch{a: a, b: b, aIO: a.ioCounters(), bAll: b.allCounters()}
}

// judge evaluates the answer st to user u, which presented the current state
// ID of a while b was the current filehandle.
func (cw csidWatch) judge(f failer, what string, u csidUser, st nfsv4.Nfsstat4) {
	const misuse = "current-stateid-other-file"
	switch {
	case st == nfsv4.NFS4_OK && !u.io:
		f.FailP("C18", "honoured-"+misuse, "%s: %s with the current state ID, which was issued for %s, succeeded although the current filehandle had been changed to %s", what, u.name, cw.a.id, cw.b.id)
	case st == nfsv4.NFS4_OK:
		if after := cw.a.ioCounters(); after != cw.aIO {
			f.FailP("C18", "honoured-"+misuse, "%s: %s with the current state ID after the current filehandle had been changed from %s to %s was served from %s: %s -> %s", what, u.name, cw.a.id, cw.b.id, cw.a.id, cw.aIO, after)
		}
	default:
		if aAfter, bAfter := cw.a.ioCounters(), cw.b.allCounters(); aAfter != cw.aIO || bAfter != cw.bAll {
			f.FailP("C18", "refused-but-changed-"+misuse, "%s: %s with the current state ID of %s at filehandle %s was refused with %d but had side effects: %s %s -> %s %s", what, u.name, cw.a.id, cw.b.id, st, cw.aIO, cw.bAll, aAfter, bAfter)
		}
	}
}

// openSwitchUse: {OPEN file (sets the current state ID), GETFH, PUTFH other |
// PUTROOTFH+LOOKUP other, u(current state ID)} in one COMPOUND.
func (c *client41) openSwitchUse(f failer, ownerName, file string, access uint32, other string, viaLookup bool, u csidUser) {
	w := c.w
	a, b := w.fs.linked[file], w.fs.linked[other]
	change := []nfsv4.NfsArgop4{putfh(b.handle)}
	if viaLookup {
		change = []nfsv4.NfsArgop4{&nfsv4.NfsArgop4_OP_PUTROOTFH{}, lookupOp(other)}
	}
	cw := watchCSID(a, b)
	res, _ := c.openTail(f, ownerName, file, access, howNoCreate, claimNull, append(change, u.op(c))...)
	if idx := 4 + len(change); res != nil && idx < len(res.Resarray) {
		cw.judge(f, fmt.Sprintf("{OPEN %s by %s/%s, change of the current filehandle to %s, %s}", file, c.owner, ownerName, other, u.name), u, opStatus(res, idx))
	}
}

// currentSID is the NFSv4.1 "current state ID" special value: it refers
// to the state ID produced by an earlier operation of the same COMPOUND.
var currentSID = nfsv4.Stateid4{Seqid: 1}

// openIOClose sends OPEN, I/O and CLOSE in ONE compound, the later
// operations referring to the open state through the current state ID.
// Since CLOSE removes the open-owner's state for the file as a whole, any
// earlier open of the same owner and file is gone afterwards, too.
func (c *client41) openIOClose(f failer, ownerName, file string, access uint32) nfsv4.Nfsstat4 {
	w := c.w
	ops := []nfsv4.NfsArgop4{&nfsv4.NfsArgop4_OP_PUTROOTFH{}, &nfsv4.NfsArgop4_OP_OPEN{Opopen: nfsv4.Open4args{
		ShareAccess: access, ShareDeny: nfsv4.OPEN4_SHARE_DENY_NONE,
		Owner: nfsv4.OpenOwner4{Clientid: c.ownerCID(), Owner: []byte(ownerName)}, Openhow: openflag(howNoCreate), Claim: &nfsv4.OpenClaim4_CLAIM_NULL{File: file},
	}}}
	if access&accRead != 0 {
		ops = append(ops, ioOp(ioRead, currentSID))
	}
	if access&accWrite != 0 {
		ops = append(ops, ioOp(ioWrite, currentSID))
	}
	ops = append(ops, &nfsv4.NfsArgop4_OP_CLOSE{Opclose: nfsv4.Close4args{OpenStateid: currentSID}})
	linked := w.fs.linked[file] != nil
	res := c.sequence(f, fmt.Sprintf("OPEN+IO+CLOSE41(%s,%s,%s,current stateid)", c.owner, ownerName, file), ops...)
	if res == nil {
		return nfsv4.NFS4ERR_BADSESSION
	}
	if opStatus(res, 0) != nfsv4.NFS4_OK {
		return res.Status
	}
	if linked && res.Status != nfsv4.NFS4_OK {
		f.FailP("C18", "entitled-refused/current-stateid", "OPEN, I/O and CLOSE of existing file %s in one COMPOUND through the current state ID failed with %d after %d results", file, res.Status, len(res.Resarray))
	}
	if res.Status == nfsv4.NFS4_OK {
		if cur := c.opens[ownerName][file]; cur != nil && cur.leaf == w.fs.linked[file] {
			cur.valid = false
			for _, l := range cur.locks {
				l.valid = false
			}
			c.releaseModelLocks(cur)
		}
	}
	return res.Status
}

func (c *client41) close(f failer, op *open41) nfsv4.Nfsstat4 {
	entitled := c.entitled(op)
	res := c.sequence(f, fmt.Sprintf("CLOSE41(%s,%s,%s)", c.owner, op.ownerName, op.leaf.id), putfh(op.leaf.handle),
		&nfsv4.NfsArgop4_OP_CLOSE{Opclose: nfsv4.Close4args{OpenStateid: op.sid}})
	if res == nil {
		return nfsv4.NFS4ERR_BADSESSION
	}
	st := opStatus(res, 2)
	if res.Status == nfsv4.NFS4_OK {
		op.valid = false
		for _, l := range op.locks {
			l.valid = false
		}
		c.releaseModelLocks(op)
	} else if entitled && opStatus(res, 0) == nfsv4.NFS4_OK {
		failBoth(f, "entitled-refused/CLOSE41", "CLOSE of %s by NFSv4.1 client %s owner %s with a valid state ID was answered %d", op.leaf.id, c.owner, op.ownerName, st)
	}
	return st
}

func (c *client41) downgrade(f failer, op *open41, access uint32) nfsv4.Nfsstat4 {
	entitled := c.entitled(op)
	res := c.sequence(f, fmt.Sprintf("OPEN_DOWNGRADE41(%s,%s,%s,%d)", c.owner, op.ownerName, op.leaf.id, access), putfh(op.leaf.handle),
		&nfsv4.NfsArgop4_OP_OPEN_DOWNGRADE{OpopenDowngrade: nfsv4.OpenDowngrade4args{OpenStateid: op.sid, ShareAccess: access}})
	if res == nil {
		return nfsv4.NFS4ERR_BADSESSION
	}
	st := opStatus(res, 2)
	if res.Status == nfsv4.NFS4_OK {
		ok := res.Resarray[2].(*nfsv4.NfsResop4_OP_OPEN_DOWNGRADE).OpopenDowngrade.(*nfsv4.OpenDowngrade4res_NFS4_OK)
		op.sid = ok.Resok4.OpenStateid
		op.bits = access
	} else if entitled && access&^op.bits == 0 && opStatus(res, 0) == nfsv4.NFS4_OK {
		failBoth(f, "entitled-refused/OPEN_DOWNGRADE41", "OPEN_DOWNGRADE of %s by NFSv4.1 client %s with a valid state ID was answered %d", op.leaf.id, c.owner, st)
	}
	return st
}

// lock sends LOCK. viaOpen forces the open-to-lock-owner form even if the
// lock-owner already has lock state on this open.
func (c *client41) lock(f failer, op *open41, lownerName string, r lockRange, shared, viaOpen bool) nfsv4.Nfsstat4 {
	w := c.w
	me := ownerKey(1, c.owner, lownerName)
	entitled := c.entitled(op)
	existing := op.locks[lownerName]
	useExisting := existing != nil && existing.valid && !existing.gone && !viaOpen
	var locker nfsv4.Locker4
	if useExisting {
		locker = &nfsv4.Locker4_FALSE{LockOwner: nfsv4.ExistLockOwner4{LockStateid: existing.sid}}
	} else {
		locker = &nfsv4.Locker4_TRUE{OpenOwner: nfsv4.OpenToLockOwner4{OpenStateid: op.sid, LockOwner: nfsv4.LockOwner4{Clientid: c.ownerCID(), Owner: []byte(lownerName)}}}
	}
	what := fmt.Sprintf("LOCK41(%s,%s,%s,%s,%s,shared=%v,viaOpen=%v%s)", c.owner, op.ownerName, op.leaf.id, lownerName, r.name, shared, !useExisting, c.cidField)
	res := c.sequence(f, what, putfh(op.leaf.handle), &nfsv4.NfsArgop4_OP_LOCK{Oplock: nfsv4.Lock4args{
		Locktype: lockType(shared), Offset: r.offset, Length: r.length, Locker: locker,
	}})
	if res == nil {
		return nfsv4.NFS4ERR_BADSESSION
	}
	if len(res.Resarray) < 3 {
		return res.Status
	}
	st := opStatus(res, 2)
	start, end, rok := rangeOf(r.offset, r.length)
	if entitled && (!useExisting || (existing.valid && !existing.gone)) {
		want := nfsv4.NFS4_OK
		if !rok {
			want = nfsv4.NFS4ERR_INVAL
		} else if w.locks.conflict(op.leaf.id, me, start, end, shared) != nil {
			want = nfsv4.NFS4ERR_DENIED
		}
		if st != want {
			fp := fmt.Sprintf("lock-result/%d-instead-of-%d", st, want)
			if st == nfsv4.NFS4ERR_DENIED {
				if d, is := res.Resarray[2].(*nfsv4.NfsResop4_OP_LOCK).Oplock.(*nfsv4.Lock4res_NFS4ERR_DENIED); is {
					if holder, ok := w.protocolOwner(d.Denied.Owner.Clientid, string(d.Denied.Owner.Owner)); ok && holder == me {
						fp = "denied-by-own-lock"
					}
				}
			}
			f.FailP("C20", fp, "%s was answered %d, the reference model (locks: %s) says %d", what, st, segments(w.locks.files[op.leaf.id]), want)
		}
	}
	switch st {
	case nfsv4.NFS4_OK:
		ok := res.Resarray[2].(*nfsv4.NfsResop4_OP_LOCK).Oplock.(*nfsv4.Lock4res_NFS4_OK)
		if existing != nil && existing.valid && !existing.gone {
			if existing.sid.Other != ok.Resok4.LockStateid.Other {
				f.FailP("C20", "second-lock-state-for-same-owner", "%s returned a new lock state ID although lock-owner %s already has lock state for this open file", what, lownerName)
			}
			existing.sid = ok.Resok4.LockStateid
		} else {
			op.locks[lownerName] = &lock41{sid: ok.Resok4.LockStateid, bits: op.bits, valid: true}
		}
		if rok {
			mode := 1
			if shared {
				mode = 2
			}
			w.locks.set(op.leaf.id, me, start, end, mode)
		}
	case nfsv4.NFS4ERR_DENIED:
		if d, is := res.Resarray[2].(*nfsv4.NfsResop4_OP_LOCK).Oplock.(*nfsv4.Lock4res_NFS4ERR_DENIED); is && rok {
			w.locks.checkDenied(w, f, what, op.leaf.id, me, start, end, shared, &d.Denied)
		}
	}
	return st
}

func (c *client41) locku(f failer, op *open41, lownerName string, r lockRange) nfsv4.Nfsstat4 {
	w := c.w
	l := op.locks[lownerName]
	entitled := c.entitled(op) && l.valid && !l.gone
	what := fmt.Sprintf("LOCKU41(%s,%s,%s,%s)", c.owner, op.leaf.id, lownerName, r.name)
	res := c.sequence(f, what, putfh(op.leaf.handle), &nfsv4.NfsArgop4_OP_LOCKU{Oplocku: nfsv4.Locku4args{
		Locktype: nfsv4.WRITE_LT, LockStateid: l.sid, Offset: r.offset, Length: r.length,
	}})
	if res == nil {
		return nfsv4.NFS4ERR_BADSESSION
	}
	if len(res.Resarray) < 3 {
		return res.Status
	}
	st := opStatus(res, 2)
	start, end, rok := rangeOf(r.offset, r.length)
	if entitled {
		want := nfsv4.NFS4_OK
		if !rok {
			want = nfsv4.NFS4ERR_INVAL
		}
		if st != want {
			f.FailP("C20", fmt.Sprintf("locku-result/%d-instead-of-%d", st, want), "%s was answered %d instead of %d", what, st, want)
		}
	}
	if st == nfsv4.NFS4_OK {
		ok := res.Resarray[2].(*nfsv4.NfsResop4_OP_LOCKU).Oplocku.(*nfsv4.Locku4res_NFS4_OK)
		l.sid = ok.LockStateid
		if rok {
			w.locks.set(op.leaf.id, ownerKey(1, c.owner, lownerName), start, end, 0)
		}
	}
	return st
}

func (c *client41) lockt(f failer, leaf *fakeLeaf, lownerName string, r lockRange, shared bool) nfsv4.Nfsstat4 {
	w := c.w
	me := ownerKey(1, c.owner, lownerName)
	what := fmt.Sprintf("LOCKT41(%s,%s,%s,%s,shared=%v%s)", c.owner, leaf.id, lownerName, r.name, shared, c.cidField)
	res := c.sequence(f, what, putfh(leaf.handle), &nfsv4.NfsArgop4_OP_LOCKT{Oplockt: nfsv4.Lockt4args{
		Locktype: lockType(shared), Offset: r.offset, Length: r.length, Owner: nfsv4.LockOwner4{Clientid: c.ownerCID(), Owner: []byte(lownerName)},
	}})
	if res == nil {
		return nfsv4.NFS4ERR_BADSESSION
	}
	if len(res.Resarray) < 3 {
		return res.Status
	}
	st := opStatus(res, 2)
	start, end, rok := rangeOf(r.offset, r.length)
	want := nfsv4.NFS4_OK
	if !rok {
		want = nfsv4.NFS4ERR_INVAL
	} else if w.locks.conflict(leaf.id, me, start, end, shared) != nil {
		want = nfsv4.NFS4ERR_DENIED
	}
	if st != want {
		fp := fmt.Sprintf("lockt-result/%d-instead-of-%d", st, want)
		if st == nfsv4.NFS4ERR_DENIED {
			if d, is := res.Resarray[2].(*nfsv4.NfsResop4_OP_LOCKT).Oplockt.(*nfsv4.Lockt4res_NFS4ERR_DENIED); is {
				if holder, ok := w.protocolOwner(d.Denied.Owner.Clientid, string(d.Denied.Owner.Owner)); ok && holder == me {
					fp = "lockt-denied-by-own-lock"
				}
			}
		}
		f.FailP("C20", fp, "%s was answered %d, but the same LOCK would be answered %d according to the reference model (locks: %s)", what, st, want, segments(w.locks.files[leaf.id]))
	}
	if st == nfsv4.NFS4ERR_DENIED && rok {
		if d, is := res.Resarray[2].(*nfsv4.NfsResop4_OP_LOCKT).Oplockt.(*nfsv4.Lockt4res_NFS4ERR_DENIED); is {
			w.locks.checkDenied(w, f, what, leaf.id, me, start, end, shared, &d.Denied)
		}
	}
	return st
}

func (c *client41) freeStateid(f failer, op *open41, lownerName string) nfsv4.Nfsstat4 {
	w := c.w
	l := op.locks[lownerName]
	me := ownerKey(1, c.owner, lownerName)
	entitled := c.entitled(op) && l.valid && !l.gone
	holds := w.locks.holdsOn(op.leaf.id, me)
	what := fmt.Sprintf("FREE_STATEID(%s,%s,%s)", c.owner, op.leaf.id, lownerName)
	res := c.sequence(f, what, &nfsv4.NfsArgop4_OP_FREE_STATEID{OpfreeStateid: nfsv4.FreeStateid4args{FsaStateid: l.sid}})
	if res == nil {
		return nfsv4.NFS4ERR_BADSESSION
	}
	if len(res.Resarray) < 2 {
		return res.Status
	}
	st := opStatus(res, 1)
	if entitled {
		want := nfsv4.NFS4_OK
		if holds {
			want = nfsv4.NFS4ERR_LOCKS_HELD
		}
		if st != want {
			f.FailP("C20", fmt.Sprintf("free-stateid-result/%d-instead-of-%d", st, want), "%s was answered %d; the reference model (holds bytes: %v) says %d", what, st, holds, want)
		}
	}
	if st == nfsv4.NFS4_OK {
		l.valid = false
	}
	return st
}

func (c *client41) testStateids(f failer) {
	var sids []nfsv4.Stateid4
	var entitled []bool
	var names []string
	for _, op := range c.allOpens() {
		sids = append(sids, op.sid)
		entitled = append(entitled, c.entitled(op))
		names = append(names, "open of "+op.leaf.id)
		for _, ln := range sortedKeys(op.locks) {
			l := op.locks[ln]
			sids = append(sids, l.sid)
			entitled = append(entitled, c.entitled(op) && l.valid && !l.gone)
			names = append(names, "lock state of "+ln+" on "+op.leaf.id)
		}
	}
	res := c.sequence(f, "TEST_STATEID("+c.owner+")", &nfsv4.NfsArgop4_OP_TEST_STATEID{OptestStateid: nfsv4.TestStateid4args{TsStateids: sids}})
	if res == nil || res.Status != nfsv4.NFS4_OK || len(res.Resarray) < 2 {
		return
	}
	ok := res.Resarray[1].(*nfsv4.NfsResop4_OP_TEST_STATEID).OptestStateid.(*nfsv4.TestStateid4res_NFS4_OK)
	for i, st := range ok.TsrResok4.TsrStatusCodes {
		if entitled[i] && st != nfsv4.NFS4_OK {
			f.FailP("C18", "entitled-refused/TEST_STATEID", "TEST_STATEID reports %d for the %s of client %s, which the client is entitled to", st, names[i], c.owner)
		}
	}
}

func (c *client41) destroySession(f failer) nfsv4.Nfsstat4 {
	c.touch()
	s := c.session()
	res := c.w.compound(1, "DESTROY_SESSION", &nfsv4.NfsArgop4_OP_DESTROY_SESSION{OpdestroySession: nfsv4.DestroySession4args{DsaSessionid: s.id}})
	if res.Status == nfsv4.NFS4_OK {
		s.valid = false
	}
	return res.Status
}

func (c *client41) destroyClientid(f failer) nfsv4.Nfsstat4 {
	c.touch()
	w := c.w
	res := w.compound(1, "DESTROY_CLIENTID", &nfsv4.NfsArgop4_OP_DESTROY_CLIENTID{OpdestroyClientid: nfsv4.DestroyClientid4args{DcaClientid: c.id}})
	if res.Status == nfsv4.NFS4_OK {
		for _, op := range c.allOpens() {
			if c.entitled(op) {
				f.FailP("C18", "destroyed-with-open-state", "DESTROY_CLIENTID of client %s succeeded although it is entitled to its open of %s", c.owner, op.leaf.id)
			}
		}
		c.alive = false
	}
	return res.Status
}

func (c *client41) io(f failer, k ioKind, leaf *fakeLeaf, sid nfsv4.Stateid4, entitledBits uint32) nfsv4.Nfsstat4 {
	what := fmt.Sprintf("%s41(%s,%s)", k, c.owner, leaf.id)
	res := c.sequence(f, what, putfh(leaf.handle), ioOp(k, sid))
	if res == nil {
		return nfsv4.NFS4ERR_BADSESSION
	}
	if len(res.Resarray) < 3 {
		return res.Status
	}
	st := opStatus(res, 2)
	if entitledBits&k.needs() != 0 && st != nfsv4.NFS4_OK {
		f.FailP("C18", "entitled-refused/"+k.String()+"41", "%s with a state ID that entitles client %s to that access was answered %d", what, c.owner, st)
	}
	return st
}

// ensureSession gives the client a session for its confirmed client ID
// again (used by the reclaim oracles).
func (c *client41) ensureSession(f failer) bool {
	if c.session() != nil {
		return true
	}
	if !c.haveID {
		return false
	}
	return c.createSession(f, c.id, c.idVerf) == nfsv4.NFS4_OK
}

func (c *client41) closeEverything(f failer) {
	for _, op := range c.allOpens() {
		if !op.valid || op.gone {
			continue
		}
		if !c.ensureSession(f) {
			return
		}
		c.close(f, op)
	}
}

func (c *client41) probe(f failer) {
	w := c.w
	for _, op := range c.allOpens() {
		if !c.entitled(op) || !c.ensureSession(f) {
			continue
		}
		what := fmt.Sprintf("open state ID of NFSv4.1 client %s owner %s for %s", c.owner, op.ownerName, op.leaf.id)
		for _, other := range w.fs.leaves {
			if other != op.leaf && w.reachable(other) {
				c.refused(f, c, "other-file", what, other, op.sid)
			}
		}
		future := op.sid
		future.Seqid++
		c.refused(f, c, "future-seqid", what, op.leaf, future)
		if op.sid.Seqid > 1 {
			past := op.sid
			past.Seqid--
			c.refused(f, c, "old-seqid", what, op.leaf, past)
		}
		for _, oc := range sortedClients41(w) {
			if oc == c || !oc.haveID || !oc.alive || !oc.ensureSession(f) {
				continue
			}
			clash := false
			for _, oop := range oc.allOpens() {
				if oop.sid.Other == op.sid.Other {
					clash = true
				}
				for _, l := range oop.locks {
					if l.sid.Other == op.sid.Other {
						clash = true
					}
				}
			}
			if !clash {
				c.refused(f, oc, "other-client", what, op.leaf, op.sid)
			}
		}
		if op.bits&accRead != 0 {
			c.io(f, ioRead, op.leaf, op.sid, op.bits)
		}
		if op.bits&accWrite != 0 {
			c.io(f, ioWrite, op.leaf, op.sid, op.bits)
			c.io(f, ioSetattr, op.leaf, op.sid, op.bits)
		}
		for _, ln := range sortedKeys(op.locks) {
			l := op.locks[ln]
			if !l.valid || l.gone {
				continue
			}
			lwhat := fmt.Sprintf("lock state ID of NFSv4.1 client %s lock-owner %s for %s", c.owner, ln, op.leaf.id)
			fut := l.sid
			fut.Seqid++
			c.refused(f, c, "future-seqid", lwhat, op.leaf, fut)
			if l.bits&accRead != 0 {
				c.io(f, ioRead, op.leaf, l.sid, l.bits)
			}
			if l.bits&accWrite != 0 {
				c.io(f, ioWrite, op.leaf, l.sid, l.bits)
			}
		}
	}
	if c.haveID && c.alive && c.session() != nil {
		c.testStateids(f)
	}
}

// reachable: PUTFH of the leaf's handle can work at all.
func (w *world) reachable(l *fakeLeaf) bool {
	return w.fs.linked[l.name] == l || w.someoneEntitled(l)
}

// refused presents a state ID of client c through a session of client
// via in a way it was not issued for.
func (c *client41) refused(f failer, via *client41, how, what string, leaf *fakeLeaf, sid nfsv4.Stateid4) {
	c.touch()
	via.touch()
	w := c.w
	for _, k := range []ioKind{ioRead, ioWrite} {
		s := via.session()
		if s == nil {
			return
		}
		// Sent without the C19 variants: only the outcome matters
		// here.
		next := s.seq[0] + 1
		fsBefore := w.fs.sideEffects()
		res := w.compound(1, k.String()+"41("+how+")", sequenceOp(s, 0, next), putfh(leaf.handle), ioOp(k, sid))
		if opStatus(res, 0) != nfsv4.NFS4_OK {
			return
		}
		s.seq[0] = next
		via.renew()
		if res.Status == nfsv4.NFS4_OK {
			f.FailP("C18", "honoured-"+how, "%s of %s with the %s presented with %s succeeded", k, leaf.id, what, how)
		}
		if after := w.fs.sideEffects(); after != fsBefore {
			f.FailP("C18", "refused-but-changed-"+how, "refused I/O with the %s presented with %s had side effects: before %s, after %s", what, how, fsBefore, after)
		}
	}
}
