package schedseq

import (
	"os"
	"strconv"
	"strings"
	"testing"

	"verif/mc"
)

func seqScenario(cfg *config) *mc.Scenario {
	var cur *sys
	return &mc.Scenario{
		Name:     cfg.name,
		Props:    cfg.props,
		Liveness: cfg.props,
		Panics:   cfg.props,
		// Sequence exploration: letters are free, thread switches inside
		// a letter are never forced (bound 0).
		Bounds:   map[string]int{"quick": 0, "thorough": 0},
		MaxSteps: 20000,
		Shards:   cfg.shards,
		Build: func(x *mc.X) {
			tier := os.Getenv("MC_TIER")
			if tier == "" {
				tier = "quick"
			}
			depth := cfg.depth[tier]
			if os.Getenv("MC_REPLAY") != "" {
				// A replay file does not record the tier it was
				// found in: allow the deepest exploration depth (the
				// recorded choices are valid for any depth that is
				// large enough).
				for _, d := range cfg.depth {
					if d > depth {
						depth = d
					}
				}
			}
			// Ad-hoc deeper exploration of selected scenarios (not used by
			// the tiers): SCHEDSEQ_EXTRA_DEPTH=<n> SCHEDSEQ_EXTRA_MATCH=<substring>.
			if n, err := strconv.Atoi(os.Getenv("SCHEDSEQ_EXTRA_DEPTH")); err == nil && strings.Contains(cfg.name, os.Getenv("SCHEDSEQ_EXTRA_MATCH")) {
				depth += n
			}
			cur = build(x, cfg, depth)
		},
		Finish: func(x *mc.X) {
			x.Outcome("%s", strings.Join(cur.outcome, ";"))
		},
	}
}

func TestMC(t *testing.T) {
	var scenarios []*mc.Scenario
	for _, c := range configs() {
		scenarios = append(scenarios, seqScenario(c))
	}
	for _, c := range concConfigs() {
		scenarios = append(scenarios, concScenario(c))
	}
	for _, c := range scriptConfigs() {
		scenarios = append(scenarios, scriptScenario(c))
	}
	mc.Main(t, scenarios, seqs())
}
