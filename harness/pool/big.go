package pool

import (
	"encoding/binary"
	"errors"
	"fmt"
	"io"
	"math"
	"math/bits"
	"sort"
	"strings"
	"sync"

	"verif/mc"

	rpool "github.com/buildbarn/bb-remote-execution/pkg/filesystem/pool"
	"github.com/buildbarn/bb-storage/pkg/filesystem"
)

// Engine B on LARGE geometries: device offsets, sector numbers, file offsets
// and sizes around the 16-, 31-, 32- and 63-bit boundaries. The tiny
// geometries of model.go (sector size 2|4, <= 130 sectors) can never tell
// 32-bit from 64-bit arithmetic. Here the device is sparse (only non-zero
// bytes are stored), the bitmap allocator is real and has 16400 .. 2^20+4
// sectors of which all but a handful around the boundaries are occupied by
// ballast, and the reference model of a file is sparse as well (size + map
// of non-zero bytes), so that files of 2^63-1 bytes cost nothing.

// sparseDevice is an in-memory block device of `size` bytes that stores only
// its non-zero bytes. Never-written bytes read as zero.
type sparseDevice struct {
	size int64
	data map[int64]byte
}

var errSparseRange = errors.New("sparse device: access out of range")

func (d *sparseDevice) ReadAt(p []byte, off int64) (int, error) {
	if off < 0 || off > d.size || int64(len(p)) > d.size-off {
		return 0, errSparseRange
	}
	clear(p)
	end := off + int64(len(p))
	for k, v := range d.data {
		if k >= off && k < end {
			p[k-off] = v
		}
	}
	return len(p), nil
}

func (d *sparseDevice) WriteAt(p []byte, off int64) (int, error) {
	if off < 0 || off > d.size || int64(len(p)) > d.size-off {
		return 0, errSparseRange
	}
	end := off + int64(len(p))
	for k := range d.data {
		if k >= off && k < end {
			delete(d.data, k)
		}
	}
	forNonZero(p, func(i int, b byte) { d.data[off+int64(i)] = b })
	return len(p), nil
}

func (d *sparseDevice) Sync() error  { return nil }
func (d *sparseDevice) Close() error { return nil }

// forNonZero calls fn for every non-zero byte of p, skipping zero runs eight
// bytes at a time.
func forNonZero(p []byte, fn func(i int, b byte)) {
	i := 0
	for ; i+8 <= len(p); i += 8 {
		if binary.LittleEndian.Uint64(p[i:]) == 0 {
			continue
		}
		for j := i; j < i+8; j++ {
			if p[j] != 0 {
				fn(j, p[j])
			}
		}
	}
	for ; i < len(p); i++ {
		if p[i] != 0 {
			fn(i, p[i])
		}
	}
}

// scratch buffers of one sector, shared between instances.
var bigBufPool sync.Pool

func getBuf(n int) []byte {
	if b, ok := bigBufPool.Get().(*[]byte); ok && cap(*b) >= n {
		return (*b)[:n]
	}
	return make([]byte, n)
}

func putBuf(b []byte) { bigBufPool.Put(&b) }

type bigCfg struct {
	name string
	ss   int
	capS uint32
	// free: the sectors NOT held by the ballast in the initial state (sorted);
	// nil: no ballast, all sectors free, cursor at the start.
	free []uint32
	// cursor: the next-fit cursor stands just behind this sector (which is
	// held by the ballast), i.e. the next allocation starts searching at
	// sector cursor+1.
	cursor   uint32
	maxFiles int // 0: no quota layer
	maxBytes uint64
	woffs    []int64
	wlens    []int
	truncs   []int64
	depth    map[string]int
	noClose  bool // no Close / NewFile letters
}

// bigZeroHS behaves like rpool.ZeroHoleSource and additionally counts the
// calls made to it by one instance: a whole execution (<= 6 operations plus
// the read / seek sweep of Check) consults the hole source a few thousand
// times; more than hsCallLimit calls mean that a call into the file pool is
// stuck in a loop. The panic turns the hang into a reportable, deterministic
// violation.
type bigZeroHS struct{ calls *int }

const hsCallLimit = 100000

type livelockPanic struct{}

func (livelockPanic) String() string {
	return fmt.Sprintf("livelock: hole source consulted more than %d times within one execution", hsCallLimit)
}

func (h bigZeroHS) tick() {
	if *h.calls++; *h.calls > hsCallLimit {
		panic(livelockPanic{})
	}
}
func (h bigZeroHS) Close() error         { return nil }
func (h bigZeroHS) Truncate(int64) error { h.tick(); return nil }
func (h bigZeroHS) ReadAt(p []byte, off int64) (int, error) {
	h.tick()
	clear(p)
	return len(p), nil
}
func (h bigZeroHS) GetNextRegionOffset(off int64, t filesystem.RegionType) (int64, error) {
	h.tick()
	switch t {
	case filesystem.Data:
		return 0, io.EOF
	case filesystem.Hole:
		return off, nil
	default:
		panic("unknown region type")
	}
}

type bigOrigin struct {
	file int
	off  int64
	set  bool
}

type bigFile struct {
	f    filesystem.FileReadWriter
	id   int
	size int64
	data map[int64]byte // model: the non-zero bytes
}

type bigSys struct {
	cfg     *bigCfg
	dev     *sparseDevice
	alloc   rpool.SectorAllocator
	top     rpool.FilePool
	files   [2]*bigFile
	nextID  int
	origins [256]bigOrigin
	isFree0 map[uint32]bool
	lastOp  string
	hsCalls int
	// setupErr: the allocator misbehaved while the ballast was set up.
	setupErr string
}

func newBigSys(cfg *bigCfg) *bigSys {
	s := &bigSys{cfg: cfg, isFree0: map[uint32]bool{}}
	s.dev = &sparseDevice{size: int64(cfg.capS) * int64(cfg.ss), data: map[int64]byte{}}
	s.alloc = rpool.NewBitmapSectorAllocator(cfg.capS)
	if cfg.free != nil {
		// The ballast is allocated through the real allocator, which is under
		// test itself: an unexpected answer is a finding (reported by Check
		// in the initial state), not a harness error.
		first, n, err := s.alloc.AllocateContiguous(int(cfg.capS))
		if err != nil || first != 1 || n != int(cfg.capS) {
			s.setupErr = fmt.Sprintf("AllocateContiguous(%d) on a fresh allocator of %d sectors returned first=%d n=%d err=%v", cfg.capS, cfg.capS, first, n, err)
			return s
		}
		// Move the cursor: with only one sector free the next allocation
		// returns it and leaves the cursor behind it.
		s.alloc.FreeList([]uint32{cfg.cursor})
		first, n, err = s.alloc.AllocateContiguous(1)
		if err != nil || first != cfg.cursor || n != 1 {
			s.setupErr = fmt.Sprintf("with sector %d the only free one of %d, AllocateContiguous(1) returned first=%d n=%d err=%v", cfg.cursor, cfg.capS, first, n, err)
			return s
		}
		s.alloc.FreeList(cfg.free)
		for _, sec := range cfg.free {
			s.isFree0[sec] = true
		}
	} else {
		for sec := uint32(1); sec <= cfg.capS; sec++ {
			s.isFree0[sec] = true
		}
	}
	var base rpool.FilePool = rpool.NewBlockDeviceBackedFilePool(s.dev, s.alloc, cfg.ss)
	if cfg.maxFiles > 0 {
		base = rpool.NewQuotaEnforcingFilePool(base, uint64(cfg.maxFiles), cfg.maxBytes)
	}
	s.top = base
	return s
}

func (s *bigSys) hasQuota() bool { return s.cfg.maxFiles > 0 }

// freeList returns the sectors marked free in the allocator, ascending.
func (s *bigSys) freeList() []uint32 {
	bm, _, ok := rpool.VerifAllocatorState(s.alloc)
	if !ok {
		panic("harness: not a bitmap allocator")
	}
	var l []uint32
	for w, word := range bm {
		for word != 0 {
			b := bits.TrailingZeros64(word)
			word &^= 1 << b
			l = append(l, uint32(w*64+b+1))
		}
	}
	return l
}

func (s *bigSys) freshTags(n, file int, offs func(i int) int64) []byte {
	var used [256]bool
	used[0] = true
	for _, b := range s.dev.data {
		used[b] = true
	}
	for _, bf := range s.files {
		if bf != nil {
			for _, b := range bf.data {
				used[b] = true
			}
		}
	}
	out := make([]byte, 0, n)
	for v := 1; v < 256 && len(out) < n; v++ {
		if !used[v] {
			s.origins[v] = bigOrigin{file: file, off: offs(len(out)), set: true}
			out = append(out, byte(v))
		}
	}
	if len(out) != n {
		panic("harness: out of tag values")
	}
	return out
}

func (s *bigSys) fail(c rep, fingerprint, format string, args ...any) {
	c.FailP(prop, fingerprint+"/after-"+s.lastOp, format, args...)
}

func (s *bigSys) classify(bf *bigFile, o int64, got byte) string {
	if got == 0 {
		return "content/lost-data"
	}
	og := s.origins[got]
	switch {
	case !og.set:
		return "content/garbage"
	case og.file != bf.id:
		return "isolation/foreign-file"
	case og.off != o:
		return "isolation/other-offset"
	default:
		return "isolation/stale"
	}
}

func (s *bigSys) describe(got byte) string {
	if got == 0 {
		return "0x00"
	}
	og := s.origins[got]
	if !og.set {
		return fmt.Sprintf("0x%02x (unknown origin)", got)
	}
	return fmt.Sprintf("0x%02x (written to file#%d offset %d)", got, og.file, og.off)
}

func (s *bigSys) openCountAndBytes(except *bigFile) (int, uint64) {
	n, sum := 0, uint64(0)
	for _, bf := range s.files {
		if bf != nil && bf != except {
			n++
			sum += uint64(bf.size)
		}
	}
	return n, sum
}

// ---------------------------------------------------------------------
// Operations
// ---------------------------------------------------------------------

func (s *bigSys) doNewFile(c rep, slot int) {
	id := s.nextID
	s.nextID++
	open, _ := s.openCountAndBytes(nil)
	f, err := s.top.NewFile(bigZeroHS{&s.hsCalls}, 0)
	c.Logf("  NewFile -> err=%v", err)
	s.lastOp = "NewFile-ok"
	if err != nil {
		s.lastOp = "NewFile-failed"
		c.FailP(prop, "spurious-error/NewFile", "NewFile(size 0) failed with %d of %d files open: %v", open, s.cfg.maxFiles, err)
		return
	}
	if f == nil {
		c.FailP(prop, "newfile/nil-without-error", "NewFile returned nil, nil")
		return
	}
	s.files[slot] = &bigFile{f: f, id: id, data: map[int64]byte{}}
}

// payload of a write of n bytes: all bytes tagged if n <= 4, else the first
// two and the last two (the middle is written as zeros).
func tagPositions(n int) []int {
	if n <= 4 {
		l := make([]int, n)
		for i := range l {
			l[i] = i
		}
		return l
	}
	return []int{0, 1, n - 2, n - 1}
}

func (s *bigSys) doWrite(c rep, slot int, off int64, n int) {
	bf := s.files[slot]
	pos := tagPositions(n)
	tags := s.freshTags(len(pos), bf.id, func(i int) int64 { return off + int64(pos[i]) })
	buf := make([]byte, n)
	for i, p := range pos {
		buf[p] = tags[i]
	}
	old := bf.size
	end := off + int64(n)
	_, sumOthers := s.openCountAndBytes(bf)
	quotaReject := s.hasQuota() && end > old && sumOthers+uint64(end) > s.cfg.maxBytes
	nw, err := bf.f.WriteAt(buf, off)
	c.Logf("  WriteAt(%d bytes, tags %x at %v, @%d) -> n=%d err=%v", n, tags, pos, off, nw, err)
	s.lastOp = "WriteAt-ok"
	if err != nil {
		s.lastOp = "WriteAt-failed"
	}
	if nw < 0 || nw > n {
		c.FailP(prop, "write/bad-count", "WriteAt returned n=%d for %d bytes", nw, n)
		return
	}
	if err == nil {
		if nw != n {
			c.FailP(prop, "write/short-without-error", "WriteAt(off %d, len %d) returned n=%d, err=nil", off, n, nw)
			return
		}
		for k := range bf.data {
			if k >= off && k < end {
				delete(bf.data, k)
			}
		}
		for i, p := range pos {
			bf.data[off+int64(p)] = tags[i]
		}
		if end > bf.size {
			bf.size = end
		}
		return
	}
	if !quotaReject && len(s.freeList()) != 0 {
		c.FailP(prop, "spurious-error/WriteAt", "WriteAt(off %d, len %d) failed (n=%d, %v) within quota, with %d free sectors", off, n, nw, err, len(s.freeList()))
		return
	}
	// Failed write (quota or device exhausted): its effect is left open.
	// The size may have grown up to the end of the write; every tagged or
	// previously non-zero position inside the range may hold its old value,
	// its new value or zero; adopt what is there.
	szl, lerr := bf.f.Len()
	maxSz := old
	if end > maxSz {
		maxSz = end
	}
	if lerr != nil || szl < old || szl > maxSz {
		c.FailP(prop, "size/after-failed-WriteAt", "after failed WriteAt the file is %d bytes (err %v), expected between %d and %d", szl, lerr, old, maxSz)
		return
	}
	bf.size = szl
	cand := map[int64]byte{}
	for i, p := range pos {
		cand[off+int64(p)] = tags[i]
	}
	var ks []int64
	for k := range cand {
		ks = append(ks, k)
	}
	for k := range bf.data {
		if _, dup := cand[k]; !dup && k >= off && k < end {
			ks = append(ks, k)
		}
	}
	sort.Slice(ks, func(i, j int) bool { return ks[i] < ks[j] })
	for _, k := range ks {
		if k >= bf.size {
			delete(bf.data, k)
			continue
		}
		var one [1]byte
		if m, rerr := bf.f.ReadAt(one[:], k); m != 1 || (rerr != nil && rerr != io.EOF) {
			c.FailP(prop, "read/after-failed-WriteAt", "reading offset %d after failed WriteAt: n=%d err=%v", k, m, rerr)
			return
		}
		got := one[0]
		if got != 0 && got != bf.data[k] && got != cand[k] {
			c.FailP(prop, s.classify(bf, k, got)+"/after-failed-WriteAt", "after failed WriteAt, file#%d offset %d reads %s", bf.id, k, s.describe(got))
			return
		}
		if got == 0 {
			delete(bf.data, k)
		} else {
			bf.data[k] = got
		}
	}
}

func (s *bigSys) doTruncate(c rep, slot int, size int64) {
	bf := s.files[slot]
	old := bf.size
	_, sumOthers := s.openCountAndBytes(bf)
	quotaReject := s.hasQuota() && size > old && sumOthers+uint64(size) > s.cfg.maxBytes
	err := bf.f.Truncate(size)
	c.Logf("  Truncate(%d) -> err=%v", size, err)
	s.lastOp = "Truncate-ok"
	if err != nil {
		s.lastOp = "Truncate-failed"
		if !quotaReject {
			c.FailP(prop, "spurious-error/Truncate", "Truncate(%d) of a %d byte file failed within quota: %v", size, old, err)
			return
		}
		// Refused by the quota: effect left open; the size must lie between
		// old and new, adopt it.
		szl, lerr := bf.f.Len()
		if lerr != nil || szl < old || szl > size {
			c.FailP(prop, "size/after-failed-Truncate", "after failed Truncate(%d) the file is %d bytes (err %v), was %d", size, szl, lerr, old)
			return
		}
		bf.size = szl
		return
	}
	if quotaReject {
		c.FailP(prop, "quota/overcommit/Truncate", "Truncate(%d) accepted although the other files hold %d bytes (limit %d)", size, sumOthers, s.cfg.maxBytes)
		return
	}
	for k := range bf.data {
		if k >= size {
			delete(bf.data, k)
		}
	}
	bf.size = size
}

func (s *bigSys) doClose(c rep, slot int) {
	err := s.files[slot].f.Close()
	c.Logf("  Close -> err=%v", err)
	s.lastOp = "Close-ok"
	if err != nil {
		s.lastOp = "Close-failed"
		c.FailP(prop, "spurious-error/Close", "Close failed: %v", err)
	}
	s.files[slot] = nil
}

// ---------------------------------------------------------------------
// Check
// ---------------------------------------------------------------------

func (s *bigSys) check(c rep) {
	if s.setupErr != "" {
		c.FailP(prop, "alloc/wrong-sectors-during-setup", "%s", s.setupErr)
		return
	}
	for _, bf := range s.files {
		if bf != nil && !c.Failed() {
			s.checkFile(c, bf)
		}
	}
	if !c.Failed() && !debugNoInvariants {
		s.checkConservation(c)
	}
}

func sortedKeys(m map[int64]byte) []int64 {
	ks := make([]int64, 0, len(m))
	for k := range m {
		ks = append(ks, k)
	}
	sort.Slice(ks, func(i, j int) bool { return ks[i] < ks[j] })
	return ks
}

// probes: the offsets around which reads and region seeks are checked.
func (s *bigSys) probes(bf *bigFile, sectors []uint32) []int64 {
	ss := int64(s.cfg.ss)
	set := map[int64]bool{}
	add := func(p int64) {
		for d := int64(-2); d <= 2; d++ {
			if q := p + d; q >= 0 && (d <= 0 || q > p) { // q > p: no overflow
				set[q] = true
			}
		}
	}
	add(0)
	add(bf.size)
	for k := range bf.data {
		add(k)
	}
	for idx, sec := range sectors {
		if sec != 0 {
			add(int64(idx) * ss)
			add(int64(idx+1) * ss)
		}
	}
	for _, p := range []int64{1 << 15, 1 << 16, 1 << 31, 1 << 32, 1 << 62, math.MaxInt64} {
		if p <= bf.size {
			add(p)
		}
	}
	var l []int64
	for q := range set {
		l = append(l, q)
	}
	sort.Slice(l, func(i, j int) bool { return l[i] < l[j] })
	return l
}

func (s *bigSys) checkFile(c rep, bf *bigFile) {
	if l, err := bf.f.Len(); err != nil || l != bf.size {
		s.fail(c, "size/Len", "file#%d: Len() = %d, %v; model size %d", bf.id, l, err, bf.size)
		return
	}
	info := rpool.VerifFileState(bf.f)
	ss := int64(s.cfg.ss)
	keys := sortedKeys(bf.data)
	// (1) read windows of 1, 4 and 7 bytes at every probe.
	pr := s.probes(bf, info.Sectors)
	for _, q := range pr {
		for _, n := range []int{1, 4, 7} {
			var arr [7]byte
			buf := arr[:n]
			got, err := bf.f.ReadAt(buf, q)
			want := 0
			if q < bf.size {
				want = n
				if rest := uint64(bf.size) - uint64(q); rest < uint64(n) {
					want = int(rest)
				}
			}
			if got != want {
				s.fail(c, "read/count", "file#%d size %d: ReadAt(off %d, len %d) returned n=%d, err=%v; want n=%d", bf.id, bf.size, q, n, got, err, want)
				return
			}
			for i := 0; i < got; i++ {
				if o := q + int64(i); buf[i] != bf.data[o] {
					s.fail(c, s.classify(bf, o, buf[i]), "file#%d size %d: ReadAt(off %d, len %d) byte at offset %d is %s, expected %s", bf.id, bf.size, q, n, o, s.describe(buf[i]), s.describe(bf.data[o]))
					return
				}
			}
			end := uint64(q) + uint64(n)
			switch {
			case end < uint64(bf.size):
				if err != nil {
					s.fail(c, "read/error", "file#%d size %d: ReadAt(off %d, len %d) returned %v", bf.id, bf.size, q, n, err)
					return
				}
			case end == uint64(bf.size):
				if err != nil && err != io.EOF {
					s.fail(c, "read/error", "file#%d size %d: ReadAt(off %d, len %d) returned %v", bf.id, bf.size, q, n, err)
					return
				}
			default:
				if err != io.EOF {
					s.fail(c, "read/eof", "file#%d size %d: ReadAt(off %d, len %d) returned err=%v instead of io.EOF", bf.id, bf.size, q, n, err)
					return
				}
			}
		}
	}
	// (2) every allocated sector of the file is read completely (one read
	// per run of up to 3 sector indices, so that reads of contiguous and of
	// fragmented runs are both exercised): exactly the model's non-zero
	// bytes, nothing else.
	for idx := 0; idx < len(info.Sectors); {
		if info.Sectors[idx] == 0 {
			idx++
			continue
		}
		run := 1
		for run < 3 && idx+run < len(info.Sectors) && info.Sectors[idx+run] != 0 {
			run++
		}
		lo := int64(idx) * ss
		hi := int64(idx+run) * ss
		if hi > bf.size {
			hi = bf.size
		}
		idx += run
		if hi <= lo {
			continue
		}
		buf := getBuf(int(hi - lo))
		got, err := bf.f.ReadAt(buf, lo)
		if got != len(buf) || (err != nil && err != io.EOF) {
			s.fail(c, "read/count", "file#%d size %d: ReadAt(off %d, len %d) returned n=%d, err=%v", bf.id, bf.size, lo, len(buf), got, err)
			putBuf(buf)
			return
		}
		bad := int64(-1)
		seen := 0
		forNonZero(buf, func(i int, b byte) {
			o := lo + int64(i)
			if bf.data[o] == b {
				seen++
			} else if bad < 0 {
				bad = o
			}
		})
		if bad < 0 {
			want := 0
			for _, k := range keys {
				if k >= lo && k < hi {
					want++
					if want > seen && buf[k-lo] == 0 {
						bad = k
						break
					}
				}
			}
			if bad < 0 && want != seen {
				for _, k := range keys {
					if k >= lo && k < hi && buf[k-lo] != bf.data[k] {
						bad = k
						break
					}
				}
			}
		}
		if bad >= 0 {
			b := buf[bad-lo]
			putBuf(buf)
			s.fail(c, s.classify(bf, bad, b), "file#%d size %d: ReadAt(off %d, len %d) byte at offset %d is %s, expected %s", bf.id, bf.size, lo, hi-lo, bad, s.describe(b), s.describe(bf.data[bad]))
			return
		}
		putBuf(buf)
	}
	// (3) region seeks at every probe: a data seek may not skip a non-zero
	// byte, a hole seek may not land on one, EOF at / past the end.
	for _, q := range pr {
		r, err, stuck := seek(bf.f, q, filesystem.Data)
		rh, errh, stuckh := seek(bf.f, q, filesystem.Hole)
		if stuck || stuckh {
			// One fingerprint for all histories: the call never returns
			// (it was cut off after hsCallLimit hole source calls).
			c.FailP(prop, "region/seek-never-returns", "file#%d size %d (%d sectors in its list): GetNextRegionOffset(%d, Data|Hole) does not return: Data stuck=%v, Hole stuck=%v (cut off after %d calls to the hole source)", bf.id, bf.size, len(info.Sectors), q, stuck, stuckh, hsCallLimit)
			return
		}
		if q >= bf.size {
			if err != io.EOF || errh != io.EOF {
				s.fail(c, "region/eof", "file#%d size %d: GetNextRegionOffset(%d) past the end returned Data:(%d,%v) Hole:(%d,%v), want io.EOF", bf.id, bf.size, q, r, err, rh, errh)
				return
			}
			continue
		}
		nextData := int64(-1)
		if i := sort.Search(len(keys), func(i int) bool { return keys[i] >= q }); i < len(keys) {
			nextData = keys[i]
		}
		switch {
		case err == io.EOF:
			if nextData >= 0 {
				s.fail(c, "region/data-skipped", "file#%d size %d: GetNextRegionOffset(%d, Data) = EOF although offset %d holds data", bf.id, bf.size, q, nextData)
				return
			}
		case err != nil:
			s.fail(c, "region/error", "file#%d: GetNextRegionOffset(%d, Data) = %v", bf.id, q, err)
			return
		default:
			if r < q || r >= bf.size || (nextData >= 0 && r > nextData) {
				s.fail(c, "region/data-skipped", "file#%d size %d: GetNextRegionOffset(%d, Data) = %d; next data byte at or after %d is at %d (-1 = none)", bf.id, bf.size, q, r, q, nextData)
				return
			}
		}
		if errh != nil {
			s.fail(c, "region/error", "file#%d size %d: GetNextRegionOffset(%d, Hole) = %v", bf.id, bf.size, q, errh)
			return
		}
		if rh < q || rh > bf.size || (rh < bf.size && bf.data[rh] != 0) {
			s.fail(c, "region/hole-on-data", "file#%d size %d: GetNextRegionOffset(%d, Hole) = %d, which is not a hole", bf.id, bf.size, q, rh)
			return
		}
	}
}

// seek calls GetNextRegionOffset and reports whether it had to be cut off by
// the call limit of the hole source.
func seek(f filesystem.FileReadWriter, off int64, t filesystem.RegionType) (r int64, err error, stuck bool) {
	defer func() {
		if p := recover(); p != nil {
			if _, ok := p.(livelockPanic); !ok {
				panic(p)
			}
			stuck = true
		}
	}()
	r, err = f.GetNextRegionOffset(off, t)
	return
}

func (s *bigSys) checkConservation(c rep) {
	open, sum := s.openCountAndBytes(nil)
	refs := map[uint32]int{}
	for _, bf := range s.files {
		if bf == nil {
			continue
		}
		info := rpool.VerifFileState(bf.f)
		if info.HasQuota && info.QuotaSize != uint64(bf.size) {
			s.fail(c, "quota/file-size", "file#%d: the quota layer accounts %d bytes, the file has %d", bf.id, info.QuotaSize, bf.size)
			return
		}
		if info.HasBlock && info.SizeBytes != uint64(bf.size) {
			s.fail(c, "size/internal", "file#%d: sizeBytes=%d, model size %d", bf.id, info.SizeBytes, bf.size)
			return
		}
		for idx, sec := range info.Sectors {
			if sec == 0 {
				continue
			}
			if sec > s.cfg.capS {
				s.fail(c, "conservation/sector-out-of-range", "file#%d sector index %d refers to device sector %d of %d", bf.id, idx, sec, s.cfg.capS)
				return
			}
			if owner, dup := refs[sec]; dup {
				s.fail(c, "conservation/sector-handed-out-twice", "device sector %d is referenced by file#%d (index %d) and by file#%d", sec, bf.id, idx, owner)
				return
			}
			if !s.isFree0[sec] {
				s.fail(c, "conservation/sector-handed-out-twice", "device sector %d is referenced by file#%d (index %d) but belongs to the ballast", sec, bf.id, idx)
				return
			}
			refs[sec] = bf.id
		}
	}
	if s.hasQuota() {
		fr, br, ok := rpool.VerifQuotaState(s.top)
		if !ok {
			panic("harness: top pool is not the quota pool")
		}
		if fr != uint64(s.cfg.maxFiles-open) {
			s.fail(c, "conservation/quota-files", "quota: %d files remaining with %d open, limit %d", int64(fr), open, s.cfg.maxFiles)
			return
		}
		if br != s.cfg.maxBytes-sum {
			s.fail(c, "conservation/quota-bytes", "quota: %d bytes remaining with %d bytes in open files, limit %d", br, sum, s.cfg.maxBytes)
			return
		}
	}
	free := s.freeList()
	for _, sec := range free {
		if sec > s.cfg.capS {
			s.fail(c, "conservation/sentinel-freed", "allocator bit %d beyond the capacity of %d sectors is marked free", sec-1, s.cfg.capS)
			return
		}
		if _, used := refs[sec]; used {
			s.fail(c, "conservation/sector-in-use-marked-free", "device sector %d is referenced by file#%d but marked free in the allocator", sec, refs[sec])
			return
		}
		if !s.isFree0[sec] {
			s.fail(c, "conservation/sector-in-use-marked-free", "device sector %d belongs to the ballast but is marked free in the allocator", sec)
			return
		}
	}
	if len(free)+len(refs) != len(s.isFree0) {
		s.fail(c, "conservation/sector-leak", "%d sectors free + %d referenced by open files != %d sectors not held by the ballast", len(free), len(refs), len(s.isFree0))
	}
}

// ---------------------------------------------------------------------
// Final
// ---------------------------------------------------------------------

func (s *bigSys) final(c rep) {
	if s.setupErr != "" {
		return
	}
	s.lastOp = "close-all"
	for slot, bf := range s.files {
		if bf != nil {
			if err := bf.f.Close(); err != nil {
				c.FailP(prop, "spurious-error/Close", "Close failed: %v", err)
				return
			}
			s.files[slot] = nil
		}
	}
	if !debugNoInvariants {
		s.checkConservation(c)
	}
	if c.Failed() {
		return
	}
	if s.hasQuota() {
		var fsx []filesystem.FileReadWriter
		for i := 0; i < s.cfg.maxFiles; i++ {
			f, err := s.top.NewFile(rpool.ZeroHoleSource, 0)
			if err != nil {
				c.FailP(prop, "conservation/quota-files-after-close", "after closing all files only %d of %d files can be created: %v", i, s.cfg.maxFiles, err)
				return
			}
			fsx = append(fsx, f)
		}
		if _, err := s.top.NewFile(rpool.ZeroHoleSource, 0); err == nil {
			c.FailP(prop, "conservation/quota-files-after-close", "after closing all files more than %d files can be created", s.cfg.maxFiles)
			return
		}
		// maxBytes bytes spread over the files (a file holds at most 2^63-1).
		rest := s.cfg.maxBytes
		sizes := make([]int64, len(fsx))
		for i, f := range fsx {
			sz := rest
			if sz > math.MaxInt64 {
				sz = math.MaxInt64
			}
			if err := f.Truncate(int64(sz)); err != nil {
				c.FailP(prop, "conservation/quota-bytes-after-close", "after closing all files the quota does not accept its maximum of %d bytes: %v", s.cfg.maxBytes, err)
				return
			}
			sizes[i] = int64(sz)
			rest -= sz
		}
		if rest == 0 {
			last := len(fsx) - 1
			if sizes[last] == math.MaxInt64 {
				panic("harness: quota too large for the close-all oracle")
			}
			if err := fsx[last].Truncate(sizes[last] + 1); err == nil {
				c.FailP(prop, "conservation/quota-bytes-after-close", "after closing all files the quota accepts more than its maximum of %d bytes", s.cfg.maxBytes)
				return
			}
		}
		for _, f := range fsx {
			f.Close()
		}
		if !debugNoInvariants {
			s.checkConservation(c)
		}
		if c.Failed() {
			return
		}
	}
	// Exactly the sectors not held by the ballast can be allocated again.
	want := len(s.isFree0)
	seen := map[uint32]bool{}
	var got []uint32
	for len(got) <= want+70 {
		sec, n, err := s.alloc.AllocateContiguous(1)
		if err != nil {
			break
		}
		if n != 1 || !s.isFree0[sec] || seen[sec] {
			c.FailP(prop, "conservation/sector-handed-out-twice", "after closing all files AllocateContiguous(1) returned sector %d (n=%d), which is in use or out of range (capacity %d)", sec, n, s.cfg.capS)
			return
		}
		seen[sec] = true
		got = append(got, sec)
	}
	if len(got) != want {
		c.FailP(prop, "conservation/sectors-after-close", "after closing all files %d sectors can be allocated, %d were free initially", len(got), want)
		return
	}
	s.alloc.FreeList(got)
}

// ---------------------------------------------------------------------
// Key
// ---------------------------------------------------------------------

func (r *renamer) putSparse(sb *strings.Builder, m map[int64]byte) {
	for _, k := range sortedKeys(m) {
		fmt.Fprintf(sb, "%d=", k)
		r.put(sb, []byte{m[k]})
		sb.WriteByte(',')
	}
}

func (s *bigSys) dump(order []int, free []uint32) string {
	var sb strings.Builder
	var r renamer
	for _, slot := range order {
		bf := s.files[slot]
		if bf == nil {
			sb.WriteString("-;")
			continue
		}
		fmt.Fprintf(&sb, "F%d:", bf.size)
		r.putSparse(&sb, bf.data)
		info := rpool.VerifFileState(bf.f)
		fmt.Fprintf(&sb, " q%v/%d b%v/%d n%d[", info.HasQuota, info.QuotaSize, info.HasBlock, info.SizeBytes, len(info.Sectors))
		for idx, sec := range info.Sectors {
			if sec != 0 {
				fmt.Fprintf(&sb, "%d:%d ", idx, sec)
			}
		}
		sb.WriteString("];")
	}
	sb.WriteString("dev:")
	r.putSparse(&sb, s.dev.data)
	_, next, _ := rpool.VerifAllocatorState(s.alloc)
	fmt.Fprintf(&sb, " free%v next%d", free, next)
	if s.hasQuota() {
		fr, br, _ := rpool.VerifQuotaState(s.top)
		fmt.Fprintf(&sb, " quota%d/%d", fr, br)
	}
	return sb.String()
}

func (s *bigSys) key() string {
	if s.setupErr != "" {
		return "setup failed"
	}
	free := s.freeList()
	a, b := s.dump([]int{0, 1}, free), s.dump([]int{1, 0}, free)
	if b < a {
		return b
	}
	return a
}

// ---------------------------------------------------------------------
// Seq construction
// ---------------------------------------------------------------------

func makeBigSeq(cfg *bigCfg) *mc.Seq {
	var ops []mc.SeqOp
	open := func(slot int) func(any) bool {
		return func(st any) bool { return st.(*bigSys).files[slot] != nil }
	}
	for slot := 0; slot < 2; slot++ {
		slot := slot
		for _, off := range cfg.woffs {
			for _, n := range cfg.wlens {
				off, n := off, n
				ops = append(ops, mc.SeqOp{
					Name:    fmt.Sprintf("f%d.WriteAt(%d,len%d)", slot, off, n),
					Enabled: open(slot),
					Do:      func(c *mc.SeqCtx, st any) { st.(*bigSys).doWrite(c, slot, off, n) },
				})
			}
		}
		for _, size := range cfg.truncs {
			size := size
			ops = append(ops, mc.SeqOp{
				Name:    fmt.Sprintf("f%d.Truncate(%d)", slot, size),
				Enabled: open(slot),
				Do:      func(c *mc.SeqCtx, st any) { st.(*bigSys).doTruncate(c, slot, size) },
			})
		}
		if !cfg.noClose {
			ops = append(ops, mc.SeqOp{
				Name:    fmt.Sprintf("f%d.Close", slot),
				Enabled: open(slot),
				Do:      func(c *mc.SeqCtx, st any) { st.(*bigSys).doClose(c, slot) },
			})
			ops = append(ops, mc.SeqOp{
				Name:    fmt.Sprintf("f%d=NewFile(0)", slot),
				Enabled: func(st any) bool { return st.(*bigSys).files[slot] == nil && st.(*bigSys).setupErr == "" },
				Do:      func(c *mc.SeqCtx, st any) { st.(*bigSys).doNewFile(c, slot) },
			})
		}
	}
	return &mc.Seq{
		Name:  cfg.name,
		Props: []string{prop},
		New: func(c *mc.SeqCtx) any {
			s := newBigSys(cfg)
			if s.setupErr != "" {
				return s // no file is open: no letter but NewFile is enabled
			}
			s.doNewFile(c, 0)
			s.doNewFile(c, 1)
			return s
		},
		Ops:    ops,
		Key:    func(st any) string { return st.(*bigSys).key() },
		Check:  func(c *mc.SeqCtx, st any) { st.(*bigSys).check(c) },
		Final:  func(c *mc.SeqCtx, st any) { st.(*bigSys).final(c) },
		Depth:  cfg.depth,
		Panics: []string{prop},
	}
}

// bigConfigs: see props.json (level_text, item 8).
func bigConfigs() []*bigCfg {
	d3 := map[string]int{"quick": 3, "thorough": 5}
	d4 := map[string]int{"quick": 4, "thorough": 5}
	const k64, k256 = int64(1) << 16, int64(1) << 18
	var l []*bigCfg
	add := func(name string, ss int64, capS uint32, free []uint32, cursor uint32, depth map[string]int) *bigCfg {
		c := &bigCfg{name: name, ss: int(ss), capS: capS, free: free, cursor: cursor, depth: depth}
		// start of sector 0, end of sector 0 (len 3: across the boundary into
		// sector 1), end of sector 1 (len 3: into sector 2).
		c.woffs, c.wlens, c.truncs = []int64{0, ss - 1, 2*ss - 2}, []int{1, 3}, []int64{0, 1, ss, ss + 1}
		l = append(l, c)
		return c
	}
	// Device offsets around 2^32 (and sector numbers around 2^16) with 64 KiB
	// sectors: sector 65537 starts at byte 2^32. (a) the first allocation is
	// the last sector below 4 GiB, a two-sector allocation straddles the
	// mark; (b) the first allocation starts exactly at 4 GiB.
	add("big-ss64k-dev4g-a", k64, 65540, []uint32{1, 2, 65536, 65537, 65538}, 65535, d4)
	add("big-ss64k-dev4g-b", k64, 65540, []uint32{1, 2, 3, 65537, 65538}, 65536, d3)
	// ... around 2^31: sector 32769 starts at byte 2^31.
	add("big-ss64k-dev2g", k64, 65540, []uint32{1, 2, 32768, 32769, 32770}, 32767, d3)
	// 256 KiB sectors: sector 8193 starts at 2^31, sector 16385 at 2^32; one
	// write of a whole sector plus one byte (the full-sector path).
	c := add("big-ss256k-dev2g4g", k256, 16400, []uint32{1, 2, 8193, 16385}, 8192, d3)
	c.woffs, c.wlens, c.truncs = []int64{0, k256 - 1}, []int{1, 3, int(k256) + 1}, []int64{0, k256 + 1}
	// 4 KiB sectors (the production sector size): sector 2^20+1 starts at 2^32.
	add("big-ss4k-dev4g", 4096, 1<<20+4, []uint32{1, 2, 1 << 20, 1<<20 + 1, 1<<20 + 2}, 1<<20-1, d3)
	// FILE offsets and sizes around 2^31, 2^32 and 2^62 (256 KiB sectors: file
	// sector indices 8191|8192 and 16383|16384), on a device that also
	// crosses 4 GiB.
	c = add("big-ss256k-fileoff", k256, 16400, []uint32{1, 2, 3, 16385, 16386}, 16384, d3)
	c.woffs = []int64{0, 1<<31 - 1, 1<<32 - 1, 1<<32 + 1}
	c.wlens = []int{1, 3}
	c.truncs = []int64{0, 1<<31 + 1, 1<<32 + 1, 1<<62 + 5}
	c.noClose = true
	// The quota layer with byte counts around 2^63 (sum of two files of about
	// 2^62 bytes each: exactly the limit / two bytes more) over a small device.
	c = add("big-quota63", k64, 6, nil, 0, d4)
	c.maxFiles, c.maxBytes = 2, 1<<63+16
	c.woffs = []int64{0, k64 - 1}
	c.truncs = []int64{0, 17, 1<<62 + 7, 1<<62 + 9}
	// File sizes at the very end of the int64 range: 2^63 - sector size (the
	// last size whose offsets all lie below the last sector-sized block) and
	// 2^63-1.
	c = add("big-size63", k64, 6, nil, 0, d3)
	c.woffs = []int64{0, k64 - 1}
	c.truncs = []int64{0, math.MaxInt64 - k64 + 1, math.MaxInt64}
	return l
}
