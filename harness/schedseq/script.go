package schedseq

import (
	"fmt"
	"strings"
	"testing/synctest"

	"verif/mc"
)

// Scripted scenarios: fixed letter sequences (the same letters, the same
// reference model and the same oracles as the sequence explorer), each run
// SEVERAL TIMES on a fresh scheduler inside one execution.
//
// They exist for behaviour of the scheduler that depends on Go's map iteration
// order, which the engine can neither control nor replay: task.schedule() ranges
// over the map t.operations, so for a task that is part of several invocations
// the order in which its invocations are examined differs from run to run. A
// correct implementation reaches an admissible result under EVERY order; a
// defective one may show the wrong result only under some. Such histories
// cannot be letters of an explored scenario (a replay of the same choice list
// could take another course: engine error), so they are run here, outside the
// controlled scheduler: the whole script runs during Build on the controller
// goroutine, Synchronize calls that block run on plain goroutines,
// synctest.Wait() delimits the letters (every goroutine durably blocked = the
// letter boundary of the explorer). The engine itself sees no thread and no
// choice: one execution per scenario, whose verdict is "no repetition of no
// variant violated an oracle". Fingerprints and messages do not depend on which
// repetition failed.

type scriptVariant struct {
	name    string
	letters []string
	// tie: the policy admits several results and the implementation's
	// choice among them depends on map order; the outcome is not recorded.
	tie bool
}

type scriptConfig struct {
	cfg      *config
	variants []scriptVariant
	reps     int
}

// runScript executes one letter sequence on a fresh system and returns it
// (torn down).
func runScript(x *mc.X, cfg *config, letters []string) *sys {
	s := newSys(x, cfg, len(letters))
	s.scripted = true
	s.spawn = func(_ string, fn func()) { go fn() }
	for _, d := range cfg.workers {
		a := &actor{decl: d, ch: make(chan int, 1)}
		a.w = &mWorker{name: d.name, id: d.id(), scq: scqKey{pqKey{d.prefix, d.platform}, d.sc}}
		s.actors = append(s.actors, a)
		go s.actorLoop(a)
	}
	s.addLetters()
	for _, l := range letters {
		d := s.letterDefs[l]
		if d == nil {
			panic("scripted scenario " + cfg.name + ": unknown letter " + l)
		}
		if !d.enabled() {
			// The script does not apply to the state reached (only
			// possible after a deviation that an oracle reports anyway).
			s.outcome = append(s.outcome, "script-stuck@"+l)
			break
		}
		d.fire()
		synctest.Wait()
		s.checkBoundary()
		if s.broken {
			break
		}
	}
	s.mu.Lock()
	s.torn = true
	s.mu.Unlock()
	s.cancel()
	for _, a := range s.actors {
		close(a.ch)
	}
	synctest.Wait()
	return s
}

func scriptScenario(sc *scriptConfig) *mc.Scenario {
	var outcome []string
	return &mc.Scenario{
		Name:   sc.cfg.name,
		Props:  sc.cfg.props,
		Panics: sc.cfg.props,
		Bounds: map[string]int{"quick": 0, "thorough": 0},
		Build: func(x *mc.X) {
			outcome = nil
			for _, v := range sc.variants {
				seen := map[string]bool{}
				var outs []string
				for r := 0; r < sc.reps && !x.Failed(); r++ {
					cfg := *sc.cfg
					cfg.name = sc.cfg.name + "/" + v.name
					s := runScript(x, &cfg, v.letters)
					if o := strings.Join(s.outcome, ";"); !seen[o] {
						seen[o] = true
						outs = append(outs, o)
					}
				}
				switch {
				case v.tie:
					outcome = append(outcome, v.name+":any-of-the-admissible")
				default:
					// More than one outcome would mean that the result
					// depends on map order although the policy leaves
					// no choice.
					outcome = append(outcome, fmt.Sprintf("%s:%d-outcomes:%s", v.name, len(outs), outs[0]))
				}
				if x.Failed() {
					return
				}
			}
		},
		Finish: func(x *mc.X) {
			x.Outcome("%s", strings.Join(outcome, "|"))
		},
	}
}

// scriptConfigs: the hand-over of a task that is part of SEVERAL invocations.
// schedule() only sees such a task when a deduplicated task is retried on the
// largest size class. Platform queue with size classes {1,4}; W:1 is the small
// worker, W:2/W:3/W:4 are large ones that wait for work after having served
// different invocations; the shared action T is requested from [A,X1] (and
// handed to W:1), then from further invocations, then W:1 reports a failure:
// the retry must be handed to a waiting large worker whose last invocation
// shares the longest prefix with one of the task's invocations.
func scriptConfigs() []*scriptConfig {
	cfg := &config{
		name: "c04-handover-multi", props: []string{"C04"}, fail: true,
		predeclared: []pqDecl{{prefix: "", platform: "P1", sizeClasses: []uint32{1, 4}}},
		workers:     []workerDecl{w(1, "", "P1", 1), w(2, "", "P1", 4), w(3, "", "P1", 4), w(4, "", "P1", 4)},
		execs: []execDecl{
			// Served by the large workers beforehand (selector index 1:
			// size class 4).
			{name: "BY", platform: "P1", corr: "B", tool: "Y", dur: 1, scIdx: 1},
			{name: "BV", platform: "P1", corr: "B", tool: "V", dur: 1, scIdx: 1},
			{name: "CZ", platform: "P1", corr: "C", tool: "Z", dur: 1, scIdx: 1},
			{name: "AW", platform: "P1", corr: "A", tool: "W", dur: 1, scIdx: 1},
			// The shared action (selector index 0: size class 1).
			{name: "T.AX1", platform: "P1", corr: "A", tool: "X1", dur: 1, share: "T"},
			{name: "T.AX2", platform: "P1", corr: "A", tool: "X2", dur: 1, share: "T"},
			{name: "T.AX3", platform: "P1", corr: "A", tool: "X3", dur: 1, share: "T"},
			{name: "T.BY", platform: "P1", corr: "B", tool: "Y", dur: 1, share: "T"},
			{name: "T.DU", platform: "P1", corr: "D", tool: "U", dur: 1, share: "T"},
		},
		maxTicks: 4,
	}
	// start(w, e): large worker w asks for work and is handed e. A later
	// letter w makes it report completion, after which it waits for work
	// having last served e's invocation.
	start := func(worker, e string) []string { return []string{worker, e} }
	seq := func(parts ...[]string) []string {
		var l []string
		for _, p := range parts {
			l = append(l, p...)
		}
		return l
	}
	dedup := func(ops ...string) []string {
		return append(append([]string{"W:1"}, ops...), "W:1.fail")
	}
	return []*scriptConfig{drainMultiScript(), {
		cfg: cfg, reps: 16,
		variants: []scriptVariant{
			{
				// W:3 last served the unrelated [C,Z] and has waited
				// longest; W:2 last served [B,Y], one of the task's four
				// invocations (prefix 2 against 0): W:2.
				name:    "exact-vs-unrelated-older",
				letters: seq(start("W:2", "BY"), start("W:3", "CZ"), []string{"W:3", "tick", "W:2"}, dedup("T.AX1", "T.AX2", "T.AX3", "T.BY")),
			},
			{
				// The same with the related worker having waited longest.
				name:    "exact-vs-unrelated-newer",
				letters: seq(start("W:2", "BY"), start("W:3", "CZ"), []string{"W:2", "tick", "W:3"}, dedup("T.AX1", "T.AX2", "T.AX3", "T.BY")),
			},
			{
				// W:2 last served [B,V], a sibling of the task's [B,Y]
				// (prefix 1 against 0 for W:3): W:2.
				name:    "sibling-vs-unrelated",
				letters: seq(start("W:2", "BV"), start("W:3", "CZ"), []string{"W:3", "tick", "W:2"}, dedup("T.AX1", "T.AX2", "T.BY")),
			},
			{
				// Two invocations only, the related one requested first.
				name:    "two-invocations",
				letters: seq(start("W:2", "BY"), start("W:3", "CZ"), []string{"W:3", "tick", "W:2"}, dedup("T.BY", "T.AX1")),
			},
			{
				// W:2 last served exactly [B,Y] (prefix 2), W:4 last served
				// [A,W], a sibling of three of the task's invocations
				// (prefix 1), W:3 the unrelated [C,Z] and has waited
				// longest: W:2.
				name: "exact-vs-sibling-vs-unrelated",
				letters: seq(start("W:2", "BY"), start("W:3", "CZ"), start("W:4", "AW"), []string{"W:3", "tick", "W:4", "tick", "W:2"},
					dedup("T.AX1", "T.AX2", "T.AX3", "T.BY")),
			},
			{
				// Equally close workers: W:2 last served [B,V], W:4 [A,W]
				// (prefix 1 each), W:3 the unrelated [C,Z]: W:2 or W:4,
				// whichever.
				name: "two-siblings-vs-unrelated", tie: true,
				letters: seq(start("W:2", "BV"), start("W:3", "CZ"), start("W:4", "AW"), []string{"W:3", "tick", "W:4", "tick", "W:2"},
					dedup("T.AX1", "T.BY", "T.DU")),
			},
			{
				// No related worker at all: any waiting one, and the task
				// must not stay queued.
				name:    "unrelated-only",
				letters: seq(start("W:3", "CZ"), []string{"W:3"}, dedup("T.AX1", "T.BY", "T.DU")),
			},
			{
				// No large worker waits: the retry is queued in all its
				// invocations on size class 4 and the next large worker
				// that asks receives it.
				name:    "queued-then-fetched",
				letters: seq(dedup("T.AX1", "T.BY", "T.DU"), []string{"W:2"}),
			},
		},
	}}
}

// drainMultiScript: drains whose worker ID pattern has SEVERAL fields, on
// workers whose IDs have three. The drain AddDrain files and the one
// RemoveDrain looks up are identified by the pattern, a map: an
// implementation that derives the identity from the map's iteration order
// removes the drain it added only under some orders, so that every history is
// repeated on fresh schedulers (a wrong key shows with probability >= 1/4 per
// repetition; 32 repetitions). Oracles: the boundary comparison (number of
// drains, waiting workers offered/not offered, work conservation), the
// routing oracle of Synchronize (a drained worker receives nothing, after
// RemoveDrain the worker receives the queued task) and ListDrains /
// ListWorkers against the model.
func drainMultiScript() *scriptConfig {
	wx := func(n int, rack, zone string) workerDecl {
		d := w(n, "", "P1", 0)
		d.extra = map[string]string{"rack": rack, "zone": zone}
		return d
	}
	cfg := &config{
		name: "c05-drain-multi", props: []string{"C05"},
		inspect:     []string{"i:d", "i:w"},
		predeclared: []pqDecl{{prefix: "", platform: "P1", sizeClasses: []uint32{0}}},
		workers:     []workerDecl{wx(1, "r1", "z1"), wx(2, "r1", "z2")},
		execs:       []execDecl{{name: "x1", platform: "P1", corr: "I1", dur: 1}},
		drains: []drainDecl{
			{name: "d:w1/3", platform: "P1", pattern: map[string]string{"host": "w1", "rack": "r1", "zone": "z1"}},
			{name: "d:r1z2", platform: "P1", pattern: map[string]string{"rack": "r1", "zone": "z2"}},
			{name: "d:r1", platform: "P1", pattern: map[string]string{"rack": "r1"}},
			// Matches nobody: W:1 is in rack r1.
			{name: "d:w1r9", platform: "P1", pattern: map[string]string{"host": "w1", "rack": "r9"}},
		},
	}
	return &scriptConfig{
		cfg: cfg, reps: 32,
		variants: []scriptVariant{
			{
				// W:1 waits, is drained by a three-field pattern (x1 stays
				// queued), the very same pattern is removed: W:1 receives x1.
				name:    "three-fields",
				letters: []string{"W:1", "d:w1/3+", "x1", "i:d", "i:w", "d:w1/3-", "i:d", "i:w", "x1", "W:1"},
			},
			{
				// Two-field pattern without the host: matches W:2 only.
				name:    "two-fields",
				letters: []string{"W:1", "W:2", "d:r1z2+", "x1", "x1", "d:r1z2-", "i:d", "W:1", "W:2"},
			},
			{
				// Overlapping drains of one, two and three fields, removed in
				// another order than added; adding a drain twice is one drain.
				name: "overlapping",
				letters: []string{"W:1", "W:2", "d:r1+", "d:w1/3+", "d:r1z2+", "d:w1/3+", "x1", "x1", "i:d", "d:r1-", "i:w",
					"d:w1/3-", "d:r1z2-", "i:d"},
			},
			{
				// A multi-field pattern one field of which differs from the
				// worker's ID drains nobody; removing it changes nothing.
				name:    "non-matching",
				letters: []string{"W:1", "d:w1r9+", "x1", "d:w1r9-", "d:w1/3+", "x1", "d:w1r9-", "W:1", "d:w1/3-"},
			},
		},
	}
}
