package vfs

import (
	"errors"
	"fmt"
	"sort"
	"strings"
	"syscall"

	"verif/mc"

	"github.com/buildbarn/bb-remote-execution/pkg/filesystem/virtual"
	"github.com/buildbarn/bb-storage/pkg/filesystem"
	"github.com/buildbarn/bb-storage/pkg/filesystem/path"
)

// ---------------------------------------------------------------------------
// State of one Engine B instance: the real directory tree, the reference
// model, and the tables that relate the two.

const maskAll = virtual.AttributesMaskChangeID | virtual.AttributesMaskFileType | virtual.AttributesMaskInodeNumber | virtual.AttributesMaskLinkCount

type autoBind struct {
	slot, parent int
	name         string
}

type seqCfg struct {
	name   string
	fold   bool
	hidden bool
	// matcher, if set, is the hidden-files matcher of the hierarchy (and
	// of the reference model) instead of the ".hid" prefix rule.
	matcher  func(string) bool
	nslots   int
	slotX    int // slot that follows the most recently created directory (-1: none)
	setup    func(c *mc.SeqCtx, s *st)
	autoBind []autoBind
	ops      func(cfg *seqCfg) []mc.SeqOp
	depth    map[string]int
	props    []string
}

type listing struct {
	dir      *mNode
	cursor   uint64
	alive    map[int]string // serial -> name of entries present since the start
	reported map[string]int // name -> number of accepted reports
	done     bool
}

type st struct {
	cfg  *seqCfg
	w    *world
	m    *model
	root virtual.PrepopulatedDirectory

	slots    []*mNode
	dirs     []*mNode // all directories with a known implementation object, in binding order
	dirImpl  map[*mNode]virtual.PrepopulatedDirectory
	dirOf    map[virtual.Directory]*mNode
	leaves   []*mNode
	leafImpl map[*mNode]virtual.LinkableLeaf
	leafOf   map[virtual.Leaf]*mNode
	lastLeaf *mNode

	lst      *listing
	poisoned bool
	kind     string
	before   map[*mNode]uint64
	c        *mc.SeqCtx
	inSetup  bool
}

func newSt(c *mc.SeqCtx, cfg *seqCfg) *st {
	w := newWorld()
	s := &st{
		cfg: cfg, w: w,
		m:       &model{fold: cfg.fold, hiddenOn: cfg.hidden, hiddenFn: cfg.matcher},
		slots:   make([]*mNode, cfg.nslots),
		dirImpl: map[*mNode]virtual.PrepopulatedDirectory{}, dirOf: map[virtual.Directory]*mNode{},
		leafImpl: map[*mNode]virtual.LinkableLeaf{}, leafOf: map[virtual.Leaf]*mNode{},
	}
	if cfg.matcher != nil {
		s.root = newRootMatcher(w, cfg.fold, cfg.matcher)
	} else {
		s.root = newRoot(w, cfg.fold, cfg.hidden)
	}
	s.m.beginOp()
	rootNode := s.m.newDir(0, &mLazy{})
	s.slots[0] = rootNode
	s.bindDir(rootNode, s.root)
	s.inSetup = true
	if cfg.setup != nil {
		cfg.setup(c, s)
	}
	s.inSetup = false
	return s
}

func hiddenMatcher(name string) bool { return strings.HasPrefix(name, ".hid") }

func newRoot(w *world, fold, hidden bool) virtual.PrepopulatedDirectory {
	matcher := func(string) bool { return false }
	if hidden {
		matcher = hiddenMatcher
	}
	return newRootMatcher(w, fold, matcher)
}

func newRootMatcher(w *world, fold bool, matcher func(string) bool) virtual.PrepopulatedDirectory {
	var normalizer virtual.ComponentNormalizer = virtual.CaseSensitiveComponentNormalizer
	if fold {
		normalizer = virtual.CaseInsensitiveComponentNormalizer
	}
	return virtual.NewInMemoryPrepopulatedDirectory(w, symlinkFactory{w}, w.logger, w.handles, sort.Sort, matcher, frozenClock{}, normalizer,
		func(virtual.AttributesMask, *virtual.Attributes) {}, virtual.NoNamedAttributesFactory)
}

func (s *st) fail(prop, what, format string, args ...any) {
	if s.inSetup {
		panic(fmt.Sprintf("setup of %s: %s: %s", s.cfg.name, what, fmt.Sprintf(format, args...)))
	}
	s.c.FailP(prop, what+"/"+s.kind, format, args...)
}

func (s *st) bindDir(n *mNode, impl virtual.Directory) {
	p, ok := impl.(virtual.PrepopulatedDirectory)
	if !ok {
		s.fail("C13", "identity", "directory object of unexpected type %T", impl)
		return
	}
	if old, ok := s.dirImpl[n]; ok {
		if virtual.Directory(old) != impl {
			s.fail("C13", "identity", "directory node %d is now a different object", n.id)
		}
		return
	}
	if other, ok := s.dirOf[impl]; ok && other != n {
		s.fail("C13", "identity", "one directory object stands for two directories (%d and %d)", other.id, n.id)
		return
	}
	s.dirImpl[n] = p
	s.dirOf[impl] = n
	s.dirs = append(s.dirs, n)
}

func (s *st) bindLeaf(n *mNode, impl virtual.Leaf) {
	l, ok := impl.(virtual.LinkableLeaf)
	if !ok {
		s.fail("C13", "identity", "leaf object of unexpected type %T", impl)
		return
	}
	if old, ok := s.leafImpl[n]; ok {
		if virtual.Leaf(old) != impl {
			s.fail("C13", "identity", "leaf node %d resolves to a different file object: hard links must share one file / names must resolve to what was put there", n.id)
		}
		return
	}
	if other, ok := s.leafOf[impl]; ok && other != n {
		s.fail("C13", "identity", "one file object stands for two distinct files (%d and %d)", other.id, n.id)
		return
	}
	s.leafImpl[n] = l
	s.leafOf[impl] = n
	s.leaves = append(s.leaves, n)
}

func (s *st) snap(n *mNode) virtual.VerifDirSnapshot {
	sn, _ := virtual.VerifSnapshotDirectory(s.dirImpl[n])
	return sn
}

// do wraps one letter of the alphabet.
func (s *st) do(c *mc.SeqCtx, kind string, body func()) {
	if s.poisoned {
		return
	}
	s.c = c
	s.kind = kind
	s.m.beginOp()
	s.before = map[*mNode]uint64{}
	for _, n := range s.dirs {
		s.before[n] = virtual.VerifDirectoryChangeID(s.dirImpl[n])
	}
	body()
	s.after()
}

func (s *st) after() {
	// (1) final contents equal to the reference, structural invariants.
	for i := 0; i < len(s.dirs); i++ { // s.dirs grows while new directories are discovered
		s.compareDir(s.dirs[i])
	}
	// (2) change counters.
	for _, n := range s.dirs {
		b, known := s.before[n]
		if !known {
			continue
		}
		a := virtual.VerifDirectoryChangeID(s.dirImpl[n])
		switch {
		case s.m.modified[n]:
			if a <= b {
				s.fail("C13", "changeid-stuck", "directory %d was modified but its change counter went %d -> %d", n.id, b, a)
			}
		case s.m.exempt[n]:
			if a < b {
				s.fail("C13", "changeid-decreased", "change counter of directory %d went %d -> %d", n.id, b, a)
			}
		default:
			if a != b {
				s.fail("C13", "changeid-moved", "directory %d was not modified but its change counter went %d -> %d", n.id, b, a)
			}
		}
	}
	// (3) no lock left behind.
	for _, n := range s.dirs {
		if !virtual.VerifDirectoryLockIsFree(s.dirImpl[n]) {
			s.fail("C14", "lockleak", "%s returned with the lock of directory %d still held", s.kind, n.id)
			s.poisoned = true
		}
	}
	// (4) link counts; a file is released exactly when its last name goes.
	for _, l := range s.leaves {
		var a virtual.Attributes
		s.leafImpl[l].VirtualGetAttributes(ctx, virtual.AttributesMaskLinkCount, &a)
		if got := a.GetLinkCount(); int(got) != l.nlink {
			s.fail("C13", "linkcount", "file %d has link count %d, reference says %d", l.id, got, l.nlink)
		}
		if rec := s.w.byOuter[s.leafImpl[l]]; rec != nil {
			want := 0
			if l.nlink == 0 {
				want = 1
			}
			if rec.inner.unlinkCalls != want {
				s.fail("C13", "release", "file %d with %d names left was released %d times", l.id, l.nlink, rec.inner.unlinkCalls)
			}
		}
	}
	// (5) automatic slot binding, pagination bookkeeping.
	for _, ab := range s.cfg.autoBind {
		if s.slots[ab.slot] == nil && s.slots[ab.parent] != nil && s.slots[ab.parent].lazy == nil {
			if e := s.m.find(s.slots[ab.parent], ab.name); e != nil && e.node.dir {
				if _, ok := s.dirImpl[e.node]; ok {
					s.slots[ab.slot] = e.node
				}
			}
		}
	}
	if l := s.lst; l != nil && !l.done {
		present := map[int]bool{}
		for _, e := range l.dir.entries {
			present[e.serial] = true
		}
		for serial := range l.alive {
			if !present[serial] {
				delete(l.alive, serial)
			}
		}
	}
}

// compareDir compares one directory of the implementation (through the
// read-only dump hook) with the reference and binds newly discovered children.
func (s *st) compareDir(n *mNode) {
	sn := s.snap(n)
	// Structural invariants of the dump itself.
	if bad := structuralDefects(sn); bad != "" {
		s.fail("C13", "structure", "directory %d: %s", n.id, bad)
		return
	}
	if sn.Deleted != n.deleted {
		s.fail("C13", "tombstone", "directory %d: deleted=%t, reference says %t", n.id, sn.Deleted, n.deleted)
	}
	if (n.lazy != nil) != !sn.Initialized {
		s.fail("C13", "lazy", "directory %d: materialised=%t, reference says %t", n.id, sn.Initialized, n.lazy == nil)
		return
	}
	if n.lazy != nil {
		return
	}
	impl := map[string]virtual.VerifDirEntry{}
	for _, e := range sn.Entries {
		impl[s.m.norm(e.Name)] = e
	}
	if len(impl) != len(n.entries) {
		s.fail("C13", "contents", "directory %d holds %s, reference holds %s", n.id, snapNames(sn), modelNames(n))
		return
	}
	for _, e := range n.entries {
		ie, ok := impl[e.norm]
		if !ok {
			s.fail("C13", "contents", "directory %d holds %s, reference holds %s", n.id, snapNames(sn), modelNames(n))
			return
		}
		if e.node.dir != (ie.Directory != nil) {
			s.fail("C13", "contents", "directory %d: %q is a directory=%t, reference says %t", n.id, e.name, ie.Directory != nil, e.node.dir)
			return
		}
		if e.node.dir {
			s.bindDir(e.node, ie.Directory)
		} else {
			s.bindLeaf(e.node, ie.Leaf)
		}
	}
}

func snapNames(sn virtual.VerifDirSnapshot) string {
	var r []string
	for _, e := range sn.Entries {
		k := "f"
		if e.Directory != nil {
			k = "d"
		}
		r = append(r, e.Name+":"+k)
	}
	sort.Strings(r)
	return "[" + strings.Join(r, " ") + "]"
}

func modelNames(n *mNode) string {
	var r []string
	for _, e := range n.entries {
		k := "f"
		if e.node.dir {
			k = "d"
		}
		r = append(r, e.name+":"+k)
	}
	sort.Strings(r)
	return "[" + strings.Join(r, " ") + "]"
}

// structuralDefects checks the dump-level invariants of one directory: map
// and list hold the same entries, the list is well linked in both
// directions, cookies strictly increase along the list and stay below the
// change counter, a removed directory holds nothing.
func structuralDefects(sn virtual.VerifDirSnapshot) string {
	if sn.ListTruncated {
		return "entry list does not return to its head"
	}
	if !sn.BackwardOK {
		return "backward walk of the entry list differs from the forward walk"
	}
	if len(sn.MapOnly) > 0 {
		return fmt.Sprintf("entries %v are in the map but not in the list", sn.MapOnly)
	}
	if sn.MapSize != len(sn.Entries) {
		return fmt.Sprintf("map holds %d entries, list holds %d", sn.MapSize, len(sn.Entries))
	}
	for i, e := range sn.Entries {
		if !e.InMap {
			return fmt.Sprintf("list entry %q is not the one the map has under its name", e.Name)
		}
		if !e.LinksOK {
			return fmt.Sprintf("list entry %q is not linked consistently", e.Name)
		}
		if (e.Directory == nil) == (e.Leaf == nil) {
			return fmt.Sprintf("entry %q is neither/both directory and leaf", e.Name)
		}
		if i > 0 && sn.Entries[i-1].Cookie >= e.Cookie {
			return fmt.Sprintf("cookies do not increase along the list (%d then %d)", sn.Entries[i-1].Cookie, e.Cookie)
		}
		if e.Cookie >= sn.ChangeID {
			return fmt.Sprintf("cookie %d of %q is not below the change counter %d", e.Cookie, e.Name, sn.ChangeID)
		}
	}
	if sn.Deleted && len(sn.Entries) > 0 {
		return "removed directory still holds entries"
	}
	return ""
}

func (s *st) status(o outcome) bool {
	if o.bad != "" {
		s.fail("C13", "status", "%s: %s", s.kind, o.bad)
		return false
	}
	return o.applied
}

// checkChangeInfo validates the before/after pair a mutating Virtual* call
// returned for directory n.
func (s *st) checkChangeInfo(n *mNode, ci virtual.ChangeInfo) {
	after := virtual.VerifDirectoryChangeID(s.dirImpl[n])
	if ci.After != after {
		s.fail("C13", "changeinfo", "ChangeInfo.After=%d but the counter of directory %d is %d", ci.After, n.id, after)
	}
	if b, ok := s.before[n]; ok && !s.m.exempt[n] && ci.Before != b {
		s.fail("C13", "changeinfo", "ChangeInfo.Before=%d but the counter of directory %d was %d", ci.Before, n.id, b)
	}
	if s.m.modified[n] && ci.Before >= ci.After {
		s.fail("C13", "changeinfo", "directory %d modified but ChangeInfo is %d -> %d", n.id, ci.Before, ci.After)
	}
	if !s.m.modified[n] && !s.m.exempt[n] && ci.Before != ci.After {
		s.fail("C13", "changeinfo", "directory %d not modified but ChangeInfo is %d -> %d", n.id, ci.Before, ci.After)
	}
}

func errStatus(err error) virtual.Status {
	switch {
	case err == nil:
		return sOK
	case errors.Is(err, syscall.ENOENT):
		return sNoEnt
	case errors.Is(err, syscall.EEXIST):
		return sExist
	case errors.Is(err, syscall.ENOTEMPTY):
		return sNotEmpty
	case errors.Is(err, errInjected):
		return sIO
	}
	return sOther
}

func (s *st) setX(n *mNode) {
	if s.cfg.slotX >= 0 {
		s.slots[s.cfg.slotX] = n
	}
}

// ---------------------------------------------------------------------------
// The calls.

func (s *st) vOpenChild(di int, name string, create, existing bool) {
	d := s.slots[di]
	var ca *virtual.Attributes
	if create {
		ca = &virtual.Attributes{}
	}
	var eo *virtual.OpenExistingOptions
	if existing {
		eo = &virtual.OpenExistingOptions{}
	}
	var out virtual.Attributes
	leaf, _, ci, st := s.dirImpl[d].VirtualOpenChild(ctx, mk(name), virtual.ShareMaskRead, ca, eo, maskAll, &out)
	o := s.m.opOpenChild(d, name, create, existing, st)
	if !s.status(o) {
		return
	}
	s.bindLeaf(o.node, leaf)
	s.lastLeaf = o.node
	s.checkChangeInfo(d, ci)
}

func (s *st) vMkdir(di int, name string) {
	d := s.slots[di]
	var out virtual.Attributes
	child, ci, st := s.dirImpl[d].VirtualMkdir(ctx, mk(name), &virtual.Attributes{}, maskAll, &out)
	o := s.m.opMkdir(d, name, st)
	if !s.status(o) {
		return
	}
	s.bindDir(o.node, child)
	s.setX(o.node)
	s.checkChangeInfo(d, ci)
	if out.GetFileType() != filesystem.FileTypeDirectory {
		s.fail("C13", "kind", "VirtualMkdir returned attributes of file type %d", out.GetFileType())
	}
}

func (s *st) vMknod(di int, name string, t nodType) {
	d := s.slots[di]
	ca := &virtual.Attributes{}
	switch t {
	case nodSymlink:
		ca.SetFileType(filesystem.FileTypeSymlink)
		ca.SetSymlinkTarget(path.UNIXFormat.NewParser("target"))
	case nodFIFO:
		ca.SetFileType(filesystem.FileTypeFIFO)
	case nodCharDev:
		ca.SetFileType(filesystem.FileTypeCharacterDevice)
	}
	var out virtual.Attributes
	leaf, ci, st := s.dirImpl[d].VirtualMknod(ctx, mk(name), ca, maskAll, &out)
	o := s.m.opMknod(d, name, t, st)
	if !s.status(o) {
		return
	}
	s.bindLeaf(o.node, leaf)
	s.lastLeaf = o.node
	s.checkChangeInfo(d, ci)
	if want := o.node.kind.fileType(); out.GetFileType() != want {
		s.fail("C13", "kind", "VirtualMknod returned attributes of file type %d, wanted %d", out.GetFileType(), want)
	}
}

func (s *st) vLink(di int, name string) {
	d := s.slots[di]
	l := s.lastLeaf
	var out virtual.Attributes
	ci, st := s.dirImpl[d].VirtualLink(ctx, mk(name), s.leafImpl[l], maskAll, &out)
	o := s.m.opLink(d, name, l, st)
	if !s.status(o) {
		return
	}
	s.checkChangeInfo(d, ci)
}

func (s *st) checkChild(n *mNode, dir virtual.Directory, leaf virtual.Leaf, a *virtual.Attributes) {
	if n.dir != (dir != nil) || n.dir == (leaf != nil) {
		s.fail("C13", "kind", "%s returned directory=%t leaf=%t, reference has directory=%t", s.kind, dir != nil, leaf != nil, n.dir)
		return
	}
	if n.dir {
		s.bindDir(n, dir)
		if a != nil && a.GetFileType() != filesystem.FileTypeDirectory {
			s.fail("C13", "kind", "%s: directory reported with file type %d", s.kind, a.GetFileType())
		}
	} else {
		s.bindLeaf(n, leaf)
		if a != nil {
			if want := n.kind.fileType(); a.GetFileType() != want {
				s.fail("C13", "kind", "%s: leaf reported with file type %d, wanted %d", s.kind, a.GetFileType(), want)
			}
			if int(a.GetLinkCount()) != n.nlink {
				s.fail("C13", "linkcount", "%s: leaf reported with link count %d, reference says %d", s.kind, a.GetLinkCount(), n.nlink)
			}
		}
	}
}

// maskPlain does not contain attributes that need the lock of a child
// directory: VirtualLookup takes a different path.
const maskPlain = virtual.AttributesMaskFileType | virtual.AttributesMaskInodeNumber | virtual.AttributesMaskLinkCount

func (s *st) vLookup(di int, name string) { s.vLookupMask(di, name, maskAll) }

func (s *st) vLookupMask(di int, name string, mask virtual.AttributesMask) {
	d := s.slots[di]
	var out virtual.Attributes
	child, st := s.dirImpl[d].VirtualLookup(ctx, mk(name), mask, &out)
	o := s.m.opLookup(d, name, st)
	if !s.status(o) {
		return
	}
	dir, leaf := child.GetPair()
	s.checkChild(o.node, dir, leaf, &out)
	if o.node.dir && mask&virtual.AttributesMaskChangeID != 0 {
		if impl, ok := s.dirImpl[o.node]; ok {
			if want := s.snapOf(impl).ChangeID; out.GetChangeID() != want {
				s.fail("C13", "changeid-attr", "VirtualLookup reported change counter %d for a directory whose counter is %d", out.GetChangeID(), want)
			}
		}
	}
}

func (s *st) snapOf(d virtual.Directory) virtual.VerifDirSnapshot {
	sn, _ := virtual.VerifSnapshotDirectory(d)
	return sn
}

func (s *st) vRename(di int, nOld string, dj int, nNew string) {
	dOld, dNew := s.slots[di], s.slots[dj]
	ciOld, ciNew, st := s.dirImpl[dOld].VirtualRename(ctx, mk(nOld), s.dirImpl[dNew], mk(nNew))
	o := s.m.opRename(dOld, nOld, dNew, nNew, st)
	if !s.status(o) {
		return
	}
	s.checkChangeInfo(dOld, ciOld)
	s.checkChangeInfo(dNew, ciNew)
}

func (s *st) vRemove(di int, name string, rmDir, rmLeaf bool) {
	d := s.slots[di]
	ci, st := s.dirImpl[d].VirtualRemove(ctx, mk(name), rmDir, rmLeaf)
	o := s.m.opRemove(d, name, rmDir, rmLeaf, st)
	if !s.status(o) {
		return
	}
	s.checkChangeInfo(d, ci)
}

// pageReporter accepts up to limit entries and refuses the next one.
type pageReporter struct {
	limit   int
	names   []string
	cookies []uint64
	dirs    []virtual.Directory
	leaves  []virtual.Leaf
	attrs   []virtual.Attributes
	refused bool
}

func (r *pageReporter) ReportEntry(nextCookie uint64, name path.Component, child virtual.DirectoryChild, attributes *virtual.Attributes) bool {
	if r.limit >= 0 && len(r.names) >= r.limit {
		r.refused = true
		return false
	}
	d, l := child.GetPair()
	r.names = append(r.names, name.String())
	r.cookies = append(r.cookies, nextCookie)
	r.dirs = append(r.dirs, d)
	r.leaves = append(r.leaves, l)
	r.attrs = append(r.attrs, *attributes)
	return true
}

// vReadDirFull lists a directory from the start in one go.
func (s *st) vReadDirFull(di int) {
	d := s.slots[di]
	r := &pageReporter{limit: -1}
	st := s.dirImpl[d].VirtualReadDir(ctx, 0, maskAll, r)
	if !s.m.ensure(d) {
		s.status(outcome{bad: second(verdict(st, []virtual.Status{sIO}))})
		return
	}
	if !s.status(outcome{bad: second(verdict(st, nil)), applied: st == sOK}) {
		return
	}
	vis := s.m.visible(d)
	if len(vis) != len(r.names) {
		s.fail("C13", "listing", "VirtualReadDir listed %v, reference shows %s", r.names, entryNames(vis))
		return
	}
	seen := map[string]bool{}
	var last uint64
	for i, name := range r.names {
		e := s.m.find(d, name)
		if e == nil || seen[e.norm] || (!e.node.dir && s.m.isHidden(e.name)) {
			s.fail("C13", "listing", "VirtualReadDir listed %v, reference shows %s", r.names, entryNames(vis))
			return
		}
		seen[e.norm] = true
		s.checkChild(e.node, r.dirs[i], r.leaves[i], &r.attrs[i])
		if r.cookies[i] == 0 || (i > 0 && r.cookies[i] <= last) {
			s.fail("C13", "cookie", "VirtualReadDir returned cookies %v: not positive and increasing", r.cookies)
			return
		}
		last = r.cookies[i]
	}
}

func second(_ bool, s string) string { return s }

func entryNames(l []*mEntry) string {
	var r []string
	for _, e := range l {
		r = append(r, e.name)
	}
	return fmt.Sprint(r)
}

// Pagination: listStart reads the first page of a listing of a directory,
// listNext the following one; any other letters may be executed in between.
// When the listing reaches its end the oracle demands that every entry that
// existed from the first page to the last was reported exactly once.
func (s *st) listStart(di, page int) {
	d := s.slots[di]
	l := &listing{dir: d, alive: map[int]string{}, reported: map[string]int{}}
	if !s.m.ensure(d) {
		panic("pagination on a lazy directory is not part of this alphabet")
	}
	for _, e := range s.m.visible(d) {
		l.alive[e.serial] = e.name
	}
	s.lst = l
	s.listPage(page)
}

func (s *st) listPage(page int) {
	l := s.lst
	r := &pageReporter{limit: page}
	st := s.dirImpl[l.dir].VirtualReadDir(ctx, l.cursor, maskAll, r)
	if !s.status(outcome{bad: second(verdict(st, nil)), applied: st == sOK}) {
		return
	}
	for i, name := range r.names {
		l.reported[name]++
		if r.cookies[i] <= l.cursor {
			s.fail("C13", "cookie", "VirtualReadDir resumed at cookie %d returned cookie %d", l.cursor, r.cookies[i])
		}
		l.cursor = r.cookies[i]
	}
	if r.refused {
		return
	}
	l.done = true
	for serial, name := range l.alive {
		_ = serial
		if n := l.reported[name]; n != 1 {
			s.fail("C13", "pagination", "entry %q existed throughout the paginated listing but was reported %d times (reports: %v)", name, n, l.reported)
			return
		}
	}
}

func (s *st) listNext(page int) { s.listPage(page) }

// ----- worker facing calls -------------------------------------------------

type childArg struct {
	childSpec
	failOnce bool
}

func (s *st) bCreateChildren(di int, children []childSpec, overwrite bool) {
	d := s.slots[di]
	arg := map[path.Component]virtual.InitialChild{}
	recs := map[string]*leafRec{}
	for _, cs := range children {
		if cs.dir {
			f := &fakeFetcher{w: s.w}
			if cs.lazy != nil {
				f.spec = cs.lazy.spec
				f.failOnce = cs.lazy.failOnce
			}
			arg[mk(cs.name)] = virtual.InitialChild{}.FromDirectory(f)
		} else {
			rec := s.w.newLeaf(kindFile)
			recs[cs.name] = rec
			arg[mk(cs.name)] = virtual.InitialChild{}.FromLeaf(rec.outer)
		}
	}
	err := s.dirImpl[d].CreateChildren(arg, overwrite)
	o, nodes := s.m.opCreateChildren(d, children, overwrite, errStatus(err))
	if !s.status(o) {
		return
	}
	for i, cs := range children {
		if !cs.dir {
			s.bindLeaf(nodes[i], recs[cs.name].outer)
		}
	}
}

func (s *st) bCreateAndEnter(di int, name string) {
	d := s.slots[di]
	child, err := s.dirImpl[d].CreateAndEnterPrepopulatedDirectory(mk(name))
	o := s.m.opCreateAndEnter(d, name, errStatus(err))
	if !s.status(o) {
		return
	}
	s.bindDir(o.node, child)
	s.setX(o.node)
}

func (s *st) bRemove(di int, name string) {
	d := s.slots[di]
	err := s.dirImpl[d].Remove(mk(name))
	s.status(s.m.opRemove(d, name, true, true, errStatus(err)))
}

func (s *st) bRemoveAll(di int, name string) {
	d := s.slots[di]
	err := s.dirImpl[d].RemoveAll(mk(name))
	s.status(s.m.opRemoveAll(d, name, errStatus(err)))
}

func (s *st) bRemoveAllChildren(di int, deleteSelf bool) {
	d := s.slots[di]
	err := s.dirImpl[d].RemoveAllChildren(deleteSelf)
	if !s.status(outcome{bad: second(verdict(errStatus(err), nil)), applied: err == nil}) {
		return
	}
	s.m.removeAllChildren(d, deleteSelf)
}

type filterMode int

const (
	filterObserve filterMode = iota
	filterRemoveAll
	filterStop
)

func (s *st) bFilterChildren(di int, mode filterMode) {
	d := s.slots[di]
	var plan filterPlan
	s.m.planFilter(d, &plan, map[*mNode]bool{})
	var gotLeaves []virtual.LinkableLeaf
	gotDirs := 0
	var removeErrs []error
	err := s.dirImpl[d].FilterChildren(func(node virtual.InitialChild, remove virtual.ChildRemover) bool {
		if dir, leaf := node.GetPair(); dir != nil {
			gotDirs++
		} else {
			gotLeaves = append(gotLeaves, leaf)
		}
		// The callback must be invoked without any directory lock held
		// (the remover re-enters the directory).
		for _, n := range s.dirs {
			if !virtual.VerifDirectoryLockIsFree(s.dirImpl[n]) {
				s.fail("C14", "lockleak-callback", "FilterChildren invoked its callback with the lock of directory %d held", n.id)
				s.poisoned = true
				return false
			}
		}
		if mode == filterRemoveAll {
			if err := remove(); err != nil {
				removeErrs = append(removeErrs, err)
			}
		}
		return mode != filterStop
	})
	if s.poisoned {
		return
	}
	if !s.status(outcome{bad: second(verdict(errStatus(err), nil)), applied: err == nil}) {
		return
	}
	total := len(plan.leaves) + len(plan.lazies)
	if mode == filterStop {
		if got := len(gotLeaves) + gotDirs; got != min(total, 1) {
			s.fail("C13", "filter", "FilterChildren with a filter that stops reported %d nodes out of %d", got, total)
		}
		return
	}
	// Multiset comparison of the reported leaves.
	want := map[*mNode]int{}
	for _, l := range plan.leaves {
		want[l]++
	}
	for _, l := range gotLeaves {
		n, ok := s.leafOf[l]
		if !ok || want[n] == 0 {
			s.fail("C13", "filter", "FilterChildren reported a file the reference does not have there (or too often)")
			return
		}
		want[n]--
	}
	if len(gotLeaves) != len(plan.leaves) || gotDirs != len(plan.lazies) {
		s.fail("C13", "filter", "FilterChildren reported %d files and %d unmaterialised directories, reference has %d and %d", len(gotLeaves), gotDirs, len(plan.leaves), len(plan.lazies))
		return
	}
	if mode == filterRemoveAll {
		if len(removeErrs) > 0 {
			s.fail("C13", "filter", "removal callbacks failed: %v", removeErrs)
			return
		}
		s.m.applyFilterRemoveAll(d, map[*mNode]bool{})
	}
}

func (s *st) bLookupChild(di int, name string) {
	d := s.slots[di]
	child, err := s.dirImpl[d].LookupChild(mk(name))
	o := s.m.opLookup(d, name, errStatus(err))
	if !s.status(o) {
		return
	}
	dir, leaf := child.GetPair()
	var dd virtual.Directory
	if dir != nil {
		dd = dir
	}
	var ll virtual.Leaf
	if leaf != nil {
		ll = leaf
	}
	s.checkChild(o.node, dd, ll, nil)
}

func (s *st) bReadDir(di int) {
	d := s.slots[di]
	infos, err := s.dirImpl[d].ReadDir()
	if !s.m.ensure(d) {
		s.status(outcome{bad: second(verdict(errStatus(err), []virtual.Status{sIO}))})
		return
	}
	if !s.status(outcome{bad: second(verdict(errStatus(err), nil)), applied: err == nil}) {
		return
	}
	var got, want []string
	for _, fi := range infos {
		got = append(got, fmt.Sprintf("%s:%d", s.m.norm(fi.Name().String()), fi.Type()))
	}
	for _, e := range s.m.visible(d) {
		t := filesystem.FileTypeDirectory
		if !e.node.dir {
			t = e.node.kind.fileType()
		}
		want = append(want, fmt.Sprintf("%s:%d", e.norm, t))
	}
	sort.Strings(got)
	sort.Strings(want)
	if strings.Join(got, ",") != strings.Join(want, ",") {
		s.fail("C13", "listing", "ReadDir returned %v, reference shows %v", got, want)
	}
}

func (s *st) bLookupAllChildren(di int) {
	d := s.slots[di]
	dirs, leaves, err := s.dirImpl[d].LookupAllChildren()
	if !s.m.ensure(d) {
		s.status(outcome{bad: second(verdict(errStatus(err), []virtual.Status{sIO}))})
		return
	}
	if !s.status(outcome{bad: second(verdict(errStatus(err), nil)), applied: err == nil}) {
		return
	}
	vis := s.m.visible(d)
	if len(dirs)+len(leaves) != len(vis) {
		s.fail("C13", "listing", "LookupAllChildren returned %d directories and %d leaves, reference shows %s", len(dirs), len(leaves), entryNames(vis))
		return
	}
	seen := map[string]bool{}
	for _, de := range dirs {
		e := s.m.find(d, de.Name.String())
		if e == nil || !e.node.dir || seen[e.norm] {
			s.fail("C13", "listing", "LookupAllChildren returned directory %q, reference shows %s", de.Name.String(), entryNames(vis))
			return
		}
		seen[e.norm] = true
		s.bindDir(e.node, de.Child)
	}
	for _, le := range leaves {
		e := s.m.find(d, le.Name.String())
		if e == nil || e.node.dir || seen[e.norm] || s.m.isHidden(e.name) {
			s.fail("C13", "listing", "LookupAllChildren returned leaf %q, reference shows %s", le.Name.String(), entryNames(vis))
			return
		}
		seen[e.norm] = true
		s.bindLeaf(e.node, le.Child)
	}
}

func (s *st) vGetChangeID(di int) {
	d := s.slots[di]
	var a virtual.Attributes
	s.dirImpl[d].VirtualGetAttributes(ctx, maskAll, &a)
	if want := s.snap(d).ChangeID; a.GetChangeID() != want {
		s.fail("C13", "changeid-attr", "VirtualGetAttributes reported change counter %d, the directory has %d", a.GetChangeID(), want)
	}
	if a.GetFileType() != filesystem.FileTypeDirectory {
		s.fail("C13", "kind", "directory reports file type %d", a.GetFileType())
	}
	// Two more calls that take the directory lock.
	s.dirImpl[d].VirtualApply(struct{}{})
	var b virtual.Attributes
	if st := s.dirImpl[d].VirtualSetAttributes(ctx, &virtual.Attributes{}, maskAll, &b); st != sOK || b.GetChangeID() != a.GetChangeID() {
		s.fail("C13", "changeid-attr", "VirtualSetAttributes without changes returned %s and change counter %d (was %d)", sname(st), b.GetChangeID(), a.GetChangeID())
	}
}

// installHooks replaces the allocators of a directory by the same fakes.
func (s *st) installHooks(di int) {
	s.dirImpl[s.slots[di]].InstallHooks(s.w, symlinkFactory{s.w}, s.w.logger, func(virtual.AttributesMask, *virtual.Attributes) {}, virtual.NoNamedAttributesFactory)
}

// foreignLeaf / foreignDir are nodes of another file system implementation.
type foreignLeaf struct{ virtual.Leaf }
type foreignDir struct{ virtual.Directory }

func (s *st) vLinkForeign(di int, name string) {
	d := s.slots[di]
	var out virtual.Attributes
	_, st := s.dirImpl[d].VirtualLink(ctx, mk(name), foreignLeaf{&fakeLeaf{}}, maskAll, &out)
	if st != sXDev {
		s.fail("C13", "status", "VirtualLink of a leaf of a different file system returned %s, not EXDEV", sname(st))
	}
}

func (s *st) vRenameForeign(di int, name string) {
	d := s.slots[di]
	_, _, st := s.dirImpl[d].VirtualRename(ctx, mk(name), foreignDir{s.root}, mk(name))
	if st != sXDev {
		s.fail("C13", "status", "VirtualRename into a directory of a different file system returned %s, not EXDEV", sname(st))
	}
}

// ---------------------------------------------------------------------------
// Canonical keys.

func (s *st) key() string {
	var b strings.Builder
	if s.poisoned {
		b.WriteString("POISONED|")
	}
	// Implementation.
	dirRank := map[*mNode]int{}
	leafRank := map[*mNode]int{}
	var dq, lq []*mNode
	visitDir := func(n *mNode) int {
		if r, ok := dirRank[n]; ok {
			return r
		}
		r := len(dq)
		dirRank[n] = r
		dq = append(dq, n)
		return r
	}
	visitLeaf := func(n *mNode) int {
		if r, ok := leafRank[n]; ok {
			return r
		}
		r := len(lq)
		leafRank[n] = r
		lq = append(lq, n)
		return r
	}
	for i, n := range s.slots {
		if n == nil {
			fmt.Fprintf(&b, "S%d=-;", i)
		} else {
			fmt.Fprintf(&b, "S%d=d%d;", i, visitDir(n))
		}
	}
	for qi := 0; qi < len(dq); qi++ {
		n := dq[qi]
		sn := s.snap(n)
		fmt.Fprintf(&b, "d%d[i%t,x%t|", qi, sn.Initialized, sn.Deleted)
		for _, e := range sn.Entries {
			b.WriteString(e.Name)
			if e.Directory != nil {
				if cn, ok := s.dirOf[e.Directory]; ok {
					fmt.Fprintf(&b, ":d%d,", visitDir(cn))
				} else {
					b.WriteString(":d?,")
				}
			} else {
				if cn, ok := s.leafOf[e.Leaf]; ok {
					fmt.Fprintf(&b, ":l%d,", visitLeaf(cn))
				} else {
					b.WriteString(":l?,")
				}
			}
		}
		b.WriteString("]")
		// Reference side of the same directory.
		fmt.Fprintf(&b, "m[x%t", n.deleted)
		if n.lazy != nil {
			fmt.Fprintf(&b, ",lazy%v/%v/%t", n.lazy.spec.files, n.lazy.spec.dirs, n.lazy.failOnce)
		}
		for _, e := range n.entries {
			b.WriteString("," + e.name)
			if e.node.dir {
				fmt.Fprintf(&b, ":d%d", visitDir(e.node))
			} else {
				fmt.Fprintf(&b, ":l%d", visitLeaf(e.node))
			}
		}
		b.WriteString("];")
	}
	if s.lastLeaf != nil {
		fmt.Fprintf(&b, "L=l%d;", visitLeaf(s.lastLeaf))
	}
	for i, l := range lq {
		var a virtual.Attributes
		unl := -1
		if impl, ok := s.leafImpl[l]; ok {
			impl.VirtualGetAttributes(ctx, virtual.AttributesMaskLinkCount, &a)
			if rec := s.w.byOuter[impl]; rec != nil {
				unl = rec.inner.unlinkCalls
			}
		}
		fmt.Fprintf(&b, "l%d{%s,n%d,u%d,m%d};", i, l.kind, a.GetLinkCount(), unl, l.nlink)
	}
	fmt.Fprintf(&b, "arm%t%t/%t%t;", s.w.failNewFile, s.w.failSymlink, s.m.armedNewFile, s.m.armedSymlink)
	if l := s.lst; l != nil {
		if l.done {
			b.WriteString("lst=done;")
		} else {
			pos := 0
			for _, e := range s.snap(l.dir).Entries {
				if e.Cookie < l.cursor {
					pos++
				}
			}
			var al, rp []string
			for _, n := range l.alive {
				al = append(al, n)
			}
			for n, k := range l.reported {
				rp = append(rp, fmt.Sprintf("%s=%d", n, k))
			}
			sort.Strings(al)
			sort.Strings(rp)
			fmt.Fprintf(&b, "lst=d%d@%d,alive%v,rep%v;", dirRank[l.dir], pos, al, rp)
		}
	}
	return b.String()
}

// final is the destructive oracle run on a separate replay of every distinct
// state: every directory the harness knows is read through all public read
// calls and compared with the reference.
func (s *st) final(c *mc.SeqCtx) {
	if s.poisoned {
		return
	}
	saved := s.slots
	n := len(s.dirs)
	for i := 0; i < n; i++ {
		d := s.dirs[i]
		s.slots = make([]*mNode, len(saved))
		s.slots[0] = d
		s.do(c, "final/VirtualGetAttributes", func() { s.vGetChangeID(0) })
		s.do(c, "final/VirtualReadDir", func() { s.vReadDirFull(0) })
		s.do(c, "final/ReadDir", func() { s.bReadDir(0) })
		s.do(c, "final/LookupAllChildren", func() { s.bLookupAllChildren(0) })
		var names []string
		for _, e := range d.entries {
			names = append(names, e.name)
		}
		names = append(names, "absent")
		for _, name := range names {
			s.do(c, "final/VirtualLookup", func() { s.vLookup(0, name) })
			s.do(c, "final/LookupChild", func() { s.bLookupChild(0, name) })
		}
	}
	s.slots = saved
}
