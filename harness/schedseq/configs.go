package schedseq

func w(n int, prefix, plat string, sc uint32) workerDecl {
	return workerDecl{name: "W:" + string(rune('0'+n)), host: "w" + string(rune('0'+n)), prefix: prefix, platform: plat, sc: sc}
}

func configs() []*config {
	onePQ := func(limits ...int) []pqDecl {
		return []pqDecl{{prefix: "", platform: "P1", sizeClasses: []uint32{0}, limits: limits}}
	}
	return []*config{
		{
			// Operations queued directly in invocations of varying depth:
			// priority, expected duration, age; direct operations before
			// child invocations.
			name: "c04-order", props: []string{"C04"}, mixedRouter: true,
			predeclared: onePQ(),
			workers:     []workerDecl{w(1, "", "P1", 0)},
			execs: []execDecl{
				{name: "I1.p0.d1", platform: "P1", corr: "I1", prio: 0, dur: 1},
				{name: "I1.p0.d2", platform: "P1", corr: "I1", prio: 0, dur: 2},
				{name: "I1.p50.d2", platform: "P1", corr: "I1", prio: 50, dur: 2},
				{name: "I1X.p0.d2", platform: "P1", corr: "I1", tool: "X", prio: 0, dur: 2},
				{name: "root.p50.d1", platform: "P1", prio: 50, dur: 1},
			},
			maxTicks: 1,
			depth:    map[string]int{"quick": 5, "thorough": 8},
		},
		{
			// Fairness between (nested) invocations: score, least
			// recently served, hand-over to the most closely related worker.
			name: "c04-fair", props: []string{"C04"},
			predeclared: onePQ(),
			workers:     []workerDecl{w(1, "", "P1", 0), w(2, "", "P1", 0)},
			execs: []execDecl{
				{name: "I1X", platform: "P1", corr: "I1", tool: "X", prio: 0, dur: 1},
				{name: "I1Y", platform: "P1", corr: "I1", tool: "Y", prio: 0, dur: 1},
				{name: "I2X", platform: "P1", corr: "I2", tool: "X", prio: 0, dur: 1},
				{name: "I2X.p50", platform: "P1", corr: "I2", tool: "X", prio: 50, dur: 1},
			},
			maxTicks: 1,
			depth:    map[string]int{"quick": 5, "thorough": 8},
		},
		{
			// Per-level stickiness windows (limits 3 ticks at level 0, 1 tick
			// at level 1): only a tie may be turned, only within the window
			// of that level.
			name: "c04-sticky", props: []string{"C04"},
			predeclared: onePQ(3, 1),
			workers:     []workerDecl{w(1, "", "P1", 0)},
			execs: []execDecl{
				{name: "I1X", platform: "P1", corr: "I1", tool: "X", prio: 0, dur: 1},
				{name: "I1Y", platform: "P1", corr: "I1", tool: "Y", prio: 0, dur: 1},
				{name: "I2X", platform: "P1", corr: "I2", tool: "X", prio: 0, dur: 1},
			},
			maxTicks: 3,
			depth:    map[string]int{"quick": 6, "thorough": 9},
		},
		{
			// Same, started from a state in which the worker's level-0 and
			// level-1 windows will differ: W:1 waits, I1X is handed to it at
			// t=0, one tick passes.
			name: "c04-sticky-warm", props: []string{"C04"},
			predeclared: onePQ(3, 1),
			workers:     []workerDecl{w(1, "", "P1", 0)},
			execs: []execDecl{
				{name: "I1X", platform: "P1", corr: "I1", tool: "X", prio: 0, dur: 1},
				{name: "I1Y", platform: "P1", corr: "I1", tool: "Y", prio: 0, dur: 1},
				{name: "I2X", platform: "P1", corr: "I2", tool: "X", prio: 0, dur: 1},
			},
			prefix:   []string{"W:1", "I1X", "tick"},
			maxTicks: 3,
			depth:    map[string]int{"quick": 5, "thorough": 8},
		},
	}
}
