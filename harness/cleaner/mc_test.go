package cleaner

import (
	"fmt"
	"io"
	"log"
	"sort"
	"sync/atomic"
	"testing"

	"verif/mc"

	remoteexecution "github.com/bazelbuild/remote-apis/build/bazel/remote/execution/v2"
	"github.com/buildbarn/bb-remote-execution/pkg/builder"
	re_cleaner "github.com/buildbarn/bb-remote-execution/pkg/cleaner"
	runner_pb "github.com/buildbarn/bb-remote-execution/pkg/proto/runner"
	"github.com/buildbarn/bb-remote-execution/pkg/runner"
	"github.com/buildbarn/bb-storage/pkg/digest"
	"github.com/buildbarn/bb-storage/pkg/filesystem"
	"github.com/buildbarn/bb-storage/pkg/filesystem/path"
)

var (
	digestA = digest.MustNewDigest("inst", remoteexecution.DigestFunction_SHA256, "aaaaaaaaaaaaaaaa11111111111111111111111111111111aaaaaaaaaaaaaaaa", 123)
)

// action of a worker thread: nil digest = "may run in parallel".
type action struct{ d *digest.Digest }

type config struct {
	name       string
	workers    [][]action // one script per worker thread
	// executors: one script per thread that goes through the REAL
	// LocalBuildExecutor (Execute / CheckReadiness) over the creator.
	executors [][]execOp
	runnerOps  []string   // script of the runner thread ("Run", "CheckReadiness")
	maxFaults  int
	maxCancels int
	faultAt    []string // operations that may fail
	quiet      []string // operations that are no scheduling points
	// c14: the scenario also serves C14 (lock leaks on every return,
	// deadlock / lost wake-up).
	c14 bool
	// failingBase: the creator under test is Clean(fake base creator
	// that may fail) instead of Shared(Clean(Root)).
	failingBase bool
	// yield: every Unlock of a shim lock (the IdleInvoker's mutex) is
	// followed by a scheduling point (mc.Scenario.YieldAfterUnlock), so
	// that the window between dropping the lock and the next blocking
	// operation / re-read of shared state interleaves with other threads.
	yield bool
	// preempt: thread switches away from an enabled thread cost one
	// deviation (the default in this harness is PreemptFree).
	preempt bool
	bounds  map[string]int
	shards  int
	// chain: the cleaner behind the IdleInvoker is the REAL
	// cleaner.NewChainedCleaner over this many fake cleaners, each of which
	// may fail (0: one fake cleaner, no chain).
	chain int
}

func scenario(c config) *mc.Scenario {
	// One execution at a time per process: the world of the current
	// execution is handed from Build to Finish through this variable.
	var cur *world
	props := []string{"C12"}
	if c.c14 {
		props = append(props, "C14")
	}
	return &mc.Scenario{
		Name:     c.name,
		Props:    props,
		Liveness: []string{"C12", "C14"},
		Livelock: []string{"C12", "C14"},
		Panics:   []string{"C12"},
		Bounds:   c.bounds,
		// The search is unbounded (state pruning); faults and
		// cancellations are bounded by the harness itself.
		PreemptFree:      !c.preempt,
		YieldAfterUnlock: c.yield,
		Shards:           c.shards,
		Build: func(x *mc.X) {
			w := newWorld(x, c.maxFaults, c.maxCancels, c.faultAt, c.quiet)
			cur = w
			w.relaxed = c.yield
			theCleaner := re_cleaner.Cleaner(w.clean)
			if c.chain > 0 {
				var links []re_cleaner.Cleaner
				for i := 0; i < c.chain; i++ {
					links = append(links, w.chainLink(i, c.chain))
				}
				theCleaner = re_cleaner.NewChainedCleaner(links)
			}
			idle := re_cleaner.NewIdleInvoker(theCleaner)
			var counter atomic.Uint64
			creator := builder.NewSharedBuildDirectoryCreator(
				builder.NewCleanBuildDirectoryCreator(
					builder.NewRootBuildDirectoryCreator(&fakeDir{w: w, n: w.root}),
					idle),
				&counter)
			if c.failingBase {
				creator = builder.NewCleanBuildDirectoryCreator(&fakeCreator{w: w}, idle)
			}
			cleanRunner := runner.NewCleanRunner(&fakeRunner{w: w}, idle)

			x.SetKey(func() string {
				uc, cl := re_cleaner.VerifIdleInvokerDump(idle)
				return fmt.Sprintf("ii=%d,%v|n=%d|%s", uc, cl, counter.Load(), w.key())
			})

			// Register all threads before starting any (in the free-running
			// race pass threads run as soon as they are spawned).
			var workers []*thread
			for i := range c.workers {
				workers = append(workers, w.addThread(fmt.Sprintf("W%d", i+1)))
			}
			var executors []*thread
			for i := range c.executors {
				executors = append(executors, w.addThread(fmt.Sprintf("E%d", i+1)))
			}
			var runnerThread *thread
			if len(c.runnerOps) > 0 {
				runnerThread = w.addThread("R")
			}
			order := append([]string(nil), w.order...)
			for i, script := range c.workers {
				t, script := workers[i], script
				x.Go(t.name, func() { w.workerThread(t, creator, script) })
			}
			for i, script := range c.executors {
				t, script := executors[i], script
				be := newExecutor(w, creator)
				x.Go(t.name, func() { w.execThread(t, be, script) })
			}
			if runnerThread != nil {
				x.Go("R", func() { w.runnerThread(runnerThread, cleanRunner, c.runnerOps) })
			}

			// Context cancellation of a thread that is in the
			// acquiring half of a call (in particular while it
			// waits for an in-flight cleaning).
			for _, n := range order {
				t := w.threads[n]
				x.AddEvent(&mc.Event{
					Name: "cancel:" + t.name,
					Enabled: func() bool {
						w.mu.Lock()
						defer w.mu.Unlock()
						if t.call != "acquire" || t.cancelled || w.cancels >= w.maxCancels {
							return false
						}
						// The context is only consulted while waiting for an
						// in-flight cleaner call of another thread: offering the
						// cancellation at other instants would only duplicate
						// behaviours.
						_, inFlight := re_cleaner.VerifIdleInvokerDump(idle)
						return inFlight && w.cleaning != t.name && t.pre == 0 && !w.holders[t.name]
					},
					Fire: func() {
						w.mu.Lock()
						t.cancelled = true
						w.cancels++
						w.mu.Unlock()
						t.cancel()
					},
				})
			}
		},
		Finish: func(x *mc.X) { cur.finish(x) },
	}
}

// finish is installed per execution (it needs the world).
func (w *world) finish(x *mc.X) {
	w.mu.Lock()
	defer w.mu.Unlock()
	if len(w.holders) != 0 || w.cleaning != "" {
		w.fail("final/busy", "all threads finished but the monitor still sees users %v / cleaning by %q", w.holderList(), w.cleaning)
	}
	var left []string
	for n := range w.root.children {
		if !w.removalFaulted[n] {
			left = append(left, n)
		}
	}
	sort.Strings(left)
	if len(left) > 0 {
		w.fail("final/root-not-empty", "all actions ended but the root build directory still contains %v (no removal fault was injected for these)", left)
	}
	x.Outcome("cleans=%d faults=%d cancels=%d left=%d", w.cleans, w.faults, w.cancels, len(w.root.children))
}

func (w *world) workerThread(t *thread, creator builder.BuildDirectoryCreator, script []action) {
	x := w.x
	for i, a := range script {
		w.setPos(t, i)
		x.ResetLocal(fmt.Sprintf("%s#%d", t.name, i))
		w.beginCall(t, "acquire")
		bd, trace, err := creator.GetBuildDirectory(t.ctx, a.d)
		w.endCall(t, "acquire", err == nil, err != nil)
		x.CheckNoLocksHeld("GetBuildDirectory")
		x.Logf("%s: GetBuildDirectory -> err=%v", t.name, err)
		if err != nil {
			w.checkFailureJustified(t, a, err)
			w.checkGone(t, "GetBuildDirectory(error)")
			x.Outcome("%s#%d=acquire-error", t.name, i)
			continue
		}
		w.checkStarted(t, trace)

		// The action: the directory must be empty, then it
		// leaves a file behind.
		x.ResetLocal(fmt.Sprintf("%s#%d/hold", t.name, i))
		entries, _ := bd.ReadDir()
		if len(entries) != 0 {
			w.fail("not-empty-on-entry", "build directory of %s is not empty when the action starts: %d entries", t.name, len(entries))
		}
		if err := bd.Mknod(path.MustNewComponent("out-"+t.name), 0o666, filesystem.DeviceNumber{}); err != nil {
			w.fail("not-empty-on-entry", "build directory of %s: creating a file failed: %v", t.name, err)
		}

		x.ResetLocal(fmt.Sprintf("%s#%d/close", t.name, i))
		w.beginCall(t, "close")
		err = bd.Close()
		w.endCall(t, "close", err == nil, true)
		x.CheckNoLocksHeld("BuildDirectory.Close")
		x.Logf("%s: Close -> err=%v", t.name, err)
		w.checkGone(t, "Close")
		if err != nil {
			x.Outcome("%s#%d=close-error", t.name, i)
		} else {
			x.Outcome("%s#%d=ok", t.name, i)
		}
	}
	w.finishThread(t)
}

func (w *world) finishThread(t *thread) {
	w.mu.Lock()
	t.finished = true
	w.mu.Unlock()
	w.x.ResetLocal(t.name + "#end")
}

// checkFailureJustified: "every action gets a build directory of its own" -
// GetBuildDirectory may only fail because of something the environment did
// to this call: an injected fault (cleaner, directory operation), a
// cancellation, or a directory of the same name that survived an injected
// removal fault.
func (w *world) checkFailureJustified(t *thread, a action, err error) {
	w.mu.Lock()
	defer w.mu.Unlock()
	if t.callFaults != 0 || t.cancelled {
		return
	}
	if a.d != nil {
		name := a.d.GetHashString()[:16]
		if _, ok := w.root.children[name]; ok && w.removalFaulted[name] {
			return
		}
	}
	w.fail("no-directory", "GetBuildDirectory of %s failed although no fault was injected into it and it was not cancelled: %v", t.name, err)
}

func (w *world) setPos(t *thread, i int) {
	w.mu.Lock()
	t.pos = i
	w.mu.Unlock()
}

// checkStarted: a successful GetBuildDirectory handed out a directory of the
// thread's own whose path is the one reported.
func (w *world) checkStarted(t *thread, trace *path.Trace) {
	w.mu.Lock()
	defer w.mu.Unlock()
	if !w.holders[t.name] {
		w.fail("start-without-acquire", "GetBuildDirectory of %s succeeded but the action never touched the environment as a user", t.name)
	}
	if t.dir == nil {
		w.fail("no-own-directory", "GetBuildDirectory of %s succeeded without entering a subdirectory", t.name)
		return
	}
	if got, want := trace.GetUNIXString(), t.dir.name; got != want {
		w.fail("wrong-path", "GetBuildDirectory of %s reports path %q but the directory handed out is %q", t.name, got, want)
	}
	for _, n := range w.order {
		o := w.threads[n]
		if o != t && o.dir == t.dir && o.call != "" {
			w.fail("shared-directory", "actions of %s and %s run in the same directory %q", t.name, o.name, t.dir.name)
		}
	}
}

// checkGone: the action of t ended; its directory must be gone unless a
// removal fault was injected for it.
func (w *world) checkGone(t *thread, call string) {
	w.mu.Lock()
	defer w.mu.Unlock()
	if t.created != "" {
		if _, ok := w.root.children[t.created]; ok && !w.removalFaulted[t.created] {
			w.fail("left-behind/"+call, "%s of %s returned but its build directory %q still exists (no removal fault injected)", call, t.name, t.created)
		}
	}
	t.dir = nil
}

func (w *world) runnerThread(t *thread, r runner_pb.RunnerServer, ops []string) {
	x := w.x
	for i, op := range ops {
		w.setPos(t, i)
		x.ResetLocal(fmt.Sprintf("%s#%d", t.name, i))
		w.beginCall(t, "acquire")
		var err error
		switch op {
		case "Run":
			_, err = r.Run(t.ctx, &runner_pb.RunRequest{})
		default:
			_, err = r.CheckReadiness(t.ctx, &runner_pb.CheckReadinessRequest{})
		}
		w.endCall(t, op, false, true)
		x.CheckNoLocksHeld("cleanRunner." + op)
		x.Logf("%s: %s -> err=%v", t.name, op, err)
		x.Outcome("%s#%d=%v", t.name, i, err == nil)
	}
	w.finishThread(t)
}

var (
	opsCleaner = []string{"cleaner"}
	opsRunner  = []string{"runner.Run", "runner.CheckReadiness"}
	opsDir     = []string{"root.Mkdir", "root.Enter", "root.Remove", "root.RemoveAll", "dir.Close"}
	opsAll     = append(append(append([]string{}, opsCleaner...), opsRunner...), opsDir...)
	// Everything Execute / CheckReadiness touch: additionally the
	// operations inside the action's own directory, the CAS and the runner.
	opsExec = append(append([]string{}, opsAll...), "dir.Mkdir", "dir.Enter", "dir.Merge", "dir.UploadFile", "cas.Get")
	unbounded  = map[string]int{"quick": -1, "thorough": -1}
)

var quietExec = []string{"dir.Mknod", "dir.Merge", "dir.UploadFile", "cas.Get", "runner.Run"}

var quietDirs = []string{"root.Mkdir", "root.Enter", "root.Remove", "root.RemoveAll", "dir.Close"}

// Faults and cancellations are deviations of the engine (thread switches are
// free, PreemptFree): the per-tier deviation bound limits their total number
// below the scenario's own budget (maxFaults + maxCancels); -1 = only the
// scenario's own budget applies.
var configs = []config{
	// --- Concurrency of the IdleInvoker proper: three users (two workers
	// through the build directory creators, one runner call). Directory
	// operations other than the action body are atomic here.
	{
		name:      "invoker-3users",
		workers:   [][]action{{{&digestA}}, {{nil}}},
		runnerOps: []string{"Run"},
		faultAt:   append(append([]string{}, opsCleaner...), opsRunner...),
		quiet:     quietDirs,
		maxFaults: 2, maxCancels: 1,
		bounds: map[string]int{"quick": 1, "thorough": -1},
	},
	{
		name: "invoker-2users", c14: true,
		workers:   [][]action{{{nil}}},
		runnerOps: []string{"CheckReadiness"},
		faultAt:   append(append([]string{}, opsCleaner...), opsRunner...),
		quiet:     quietDirs,
		maxFaults: 2, maxCancels: 1, bounds: unbounded,
	},
	// --- The production composition of the cleaner: REAL NewChainedCleaner over
	// 2-3 fake cleaners (build directory, temporary directory, process table),
	// each of which may fail: if ANY of them failed the action must not start,
	// whatever the later ones return.
	{
		name: "chain3-2users", c14: true, chain: 3,
		workers:   [][]action{{{nil}}},
		runnerOps: []string{"Run"},
		faultAt:   opsCleaner,
		quiet:     quietDirs,
		maxFaults: 2, maxCancels: 1, bounds: unbounded,
	},
	{
		name: "chain2-worker-2calls", chain: 2,
		workers:   [][]action{{{nil}, {&digestA}}},
		faultAt:   append(append([]string{}, opsCleaner...), "root.Mkdir"),
		maxFaults: 2, maxCancels: 0, bounds: unbounded,
	},
	// --- Error paths of the directory creators under concurrency.
	{
		name: "dirs-2workers", c14: true,
		workers:   [][]action{{{nil}}, {{nil}}},
		faultAt:   opsAll,
		maxFaults: 2, maxCancels: 1, bounds: unbounded,
	},
	{
		name: "worker+run", c14: true,
		workers:   [][]action{{{nil}}},
		runnerOps: []string{"Run"},
		faultAt:   opsAll,
		maxFaults: 2, maxCancels: 1, bounds: unbounded,
	},
	{
		// cleanBuildDirectoryCreator over a base creator that can fail
		// (not reachable in the production composition, where its base
		// is the root creator).
		name: "clean-over-failing-base", c14: true,
		workers:     [][]action{{{nil}}, {{nil}}},
		failingBase: true,
		faultAt:     append(append([]string{"base.GetBuildDirectory"}, opsCleaner...), opsDir...),
		maxFaults:   2, maxCancels: 1, bounds: unbounded,
	},
	// --- Directory names are reused (same digest twice, counter for
	// parallel actions): nothing may survive between actions.
	{
		name:      "reuse-2x1",
		workers:   [][]action{{{&digestA}, {&digestA}}, {{nil}}},
		faultAt:   opsAll,
		maxFaults: 1, maxCancels: 1, bounds: unbounded,
	},
	{
		name:      "reuse-2x2",
		workers:   [][]action{{{&digestA}, {&digestA}}, {{nil}, {nil}}},
		faultAt:   opsAll,
		maxFaults: 1, maxCancels: 1,
		bounds: map[string]int{"quick": 0, "thorough": -1},
	},
	// --- Post-unlock windows (YieldAfterUnlock): a scheduling point after
	// every Unlock of the IdleInvoker's mutex. A waiter that dropped the lock
	// and has not yet parked in its select interleaves with the cleaner
	// finishing (close(wakeup); i.wakeup = nil), with releases and with new
	// acquisitions: state re-read after the Unlock, or a wake-up that is
	// only delivered to threads already parked, becomes visible (lost
	// wake-up = deadlock, violation of C12 and C14). No cancellations here:
	// a thread parked between the Unlock and its select could be cancelled
	// AND woken before it evaluates the select, and Go then picks one of the
	// two ready cases at random (both legal, but the execution would no
	// longer be a function of its choice list).
	{
		name: "yield-2users", c14: true, yield: true,
		workers:   [][]action{{{nil}}},
		runnerOps: []string{"CheckReadiness"},
		faultAt:   append(append([]string{}, opsCleaner...), opsRunner...),
		quiet:     quietDirs,
		maxFaults: 1, maxCancels: 0, bounds: unbounded,
	},
	{
		name: "yield-2workers", c14: true, yield: true,
		workers:   [][]action{{{nil}}, {{nil}}},
		faultAt:   opsCleaner,
		quiet:     quietDirs,
		maxFaults: 1, maxCancels: 0, bounds: unbounded,
	},
	{
		// Three users and two calls per thread: thread switches away from
		// an enabled thread cost a deviation here (bounded search).
		name: "yield-3users-2calls", c14: true, yield: true, preempt: true,
		workers:   [][]action{{{nil}, {nil}}, {{nil}}},
		runnerOps: []string{"Run", "CheckReadiness"},
		faultAt:   opsCleaner,
		quiet:     quietDirs,
		maxFaults: 1, maxCancels: 0,
		bounds: map[string]int{"quick": 2, "thorough": 4},
	},
	// --- The executor's own use of the stack (real LocalBuildExecutor): every
	// way out of Execute / CheckReadiness gives the build directory back.
	{
		// One worker thread: an uncacheable action, the same cacheable
		// action twice (directory name reused), a readiness check.
		name: "exec-1thread", c14: true,
		executors: [][]execOp{{{d: nil}, {d: &digestA}, {readiness: true}, {d: &digestA}}},
		faultAt:   opsExec,
		maxFaults: 2, maxCancels: 0, bounds: unbounded,
	},
	{
		// Execute next to a worker thread that drives the creator itself:
		// the use count must come back on every path out of Execute, or the
		// other user's busy->idle transition is not cleaned. Operations
		// that cannot make Execute return early before the command ran
		// (merge, CAS, runner, uploads) are atomic and fault free here;
		// exec-1thread covers their failures.
		name: "exec+worker", c14: true,
		executors: [][]execOp{{{d: nil}}},
		workers:   [][]action{{{nil}}},
		faultAt:   []string{"cleaner", "root.Mkdir", "root.Enter", "root.Remove", "root.RemoveAll", "dir.Close", "dir.Mkdir", "dir.Enter"},
		quiet:     quietExec,
		maxFaults: 1, maxCancels: 1, bounds: unbounded,
	},
	{
		// Two executors (two worker threads of one bb_worker).
		name:      "exec-2threads",
		executors: [][]execOp{{{d: nil}}, {{d: &digestA}}},
		faultAt:   []string{"cleaner", "root.Mkdir", "root.Enter", "root.RemoveAll", "dir.Close", "dir.Mkdir", "dir.Enter"},
		quiet:     quietExec,
		maxFaults: 1, maxCancels: 0, bounds: unbounded,
	},
	// --- Everything at once: every operation a scheduling point.
	{
		name:      "full-3users",
		workers:   [][]action{{{&digestA}}, {{nil}}},
		runnerOps: []string{"Run"},
		faultAt:   opsAll,
		maxFaults: 2, maxCancels: 1,
		bounds: map[string]int{"quick": 0, "thorough": 2},
	},
}

func TestMC(t *testing.T) {
	log.SetOutput(io.Discard)

	scs := []*mc.Scenario{}
	for _, c := range configs {

		scs = append(scs, scenario(c))
	}
	mc.Main(t, scs, nil)
}
