// Package outputs is the C10 harness: the real builder.OutputHierarchy is run
// against a small in-memory directory tree and an in-memory CAS, on inputs
// that are enumerated exhaustively by mc.Seq (Engine B as input enumerator).
package outputs

import (
	"context"
	"fmt"
	"os"
	"sort"
	"strings"
	"syscall"

	remoteexecution "github.com/bazelbuild/remote-apis/build/bazel/remote/execution/v2"
	"github.com/buildbarn/bb-remote-execution/pkg/builder"
	"github.com/buildbarn/bb-storage/pkg/blobstore/buffer"
	"github.com/buildbarn/bb-storage/pkg/blobstore/slicing"
	"github.com/buildbarn/bb-storage/pkg/digest"
	"github.com/buildbarn/bb-storage/pkg/filesystem"
	"github.com/buildbarn/bb-storage/pkg/filesystem/path"

	"google.golang.org/grpc/status"
)

// ---------------------------------------------------------------------------
// Tree model (also the specification state the oracle reads)

type kind uint8

const (
	kFile kind = iota + 1
	kSymlink
	kDir
	kFifo
)

// node is one entry of the in-memory tree. data holds file bytes or the
// symlink target.
type node struct {
	kind     kind
	exec     bool
	data     string
	children map[string]*node
	// alt: set on the model when a fault rewrote the file in place while it
	// was being uploaded: the bytes it had before (data holds the bytes it
	// has afterwards). Either digest is accepted, provided the object stored
	// under the listed digest hashes to it.
	alt    string
	hasAlt bool
}

func newDir() *node                  { return &node{kind: kDir, children: map[string]*node{}} }
func newFile(d string, x bool) *node { return &node{kind: kFile, data: d, exec: x} }
func newSymlink(target string) *node { return &node{kind: kSymlink, data: target} }
func newFifo() *node                 { return &node{kind: kFifo} }
func (n *node) names() []string {
	l := make([]string, 0, len(n.children))
	for k := range n.children {
		l = append(l, k)
	}
	sort.Strings(l)
	return l
}

func (n *node) clone() *node {
	if n == nil {
		return nil
	}
	c := &node{kind: n.kind, exec: n.exec, data: n.data}
	if n.children != nil {
		c.children = make(map[string]*node, len(n.children))
		for k, v := range n.children {
			c.children[k] = v.clone()
		}
	}
	return c
}

// dump is a canonical rendering (sorted), used in state keys and messages.
func (n *node) dump() string {
	var sb strings.Builder
	n.dumpTo(&sb)
	return sb.String()
}

func (n *node) dumpTo(sb *strings.Builder) {
	if n == nil {
		sb.WriteString("-")
		return
	}
	switch n.kind {
	case kFile:
		if n.exec {
			fmt.Fprintf(sb, "X%q", n.data)
		} else {
			fmt.Fprintf(sb, "F%q", n.data)
		}
	case kSymlink:
		fmt.Fprintf(sb, "L%q", n.data)
	case kFifo:
		sb.WriteString("P")
	case kDir:
		sb.WriteString("{")
		for i, k := range n.names() {
			if i > 0 {
				sb.WriteString(",")
			}
			sb.WriteString(k)
			sb.WriteString(":")
			n.children[k].dumpTo(sb)
		}
		sb.WriteString("}")
	}
}

// lookup walks a normalised location without following symlinks. ok is
// false when an intermediate component is missing or not a directory.
func (n *node) lookup(loc []string) *node {
	cur := n
	for _, c := range loc {
		if cur == nil || cur.kind != kDir {
			return nil
		}
		cur = cur.children[c]
	}
	return cur
}

// ---------------------------------------------------------------------------
// World: tree + CAS + fault injection + journal

type faultKind uint8

const (
	faultNone     faultKind = iota
	faultPutAll             // every Put of digest key arg fails
	faultPutFirst           // only the first Put of digest key arg fails
	faultReadDir            // ReadDir of directory location arg fails
	faultMkdir              // Mkdir of location arg fails with EIO
	faultLstat              // Lstat of location arg fails with EIO
	faultRewrite            // the file at location arg is rewritten in place (same length) right after the read that delivers its last byte for the first time (= end of the digest pass of UploadFile)
	faultStaleDigest        // every file the action creates first had other bytes of equal length and was digested (uploaded elsewhere) in that state, then rewritten in place
)

type fault struct {
	kind faultKind
	arg  string
}

func (f fault) String() string {
	return [...]string{"none", "put-all", "put-first", "readdir", "mkdir", "lstat", "rewrite-after-digest-pass", "stale-digest"}[f.kind] + "(" + f.arg + ")"
}

type world struct {
	root  *node
	cas   *fakeCAS
	fault fault
	hit   bool // the fault fired at least once

	mkdirs   []string // locations passed to Mkdir (successful or EEXIST)
	readDirs []string // directory locations on which ReadDir was called
	lstats   []string // locations passed to Lstat
	opened   []string // file locations opened for reading through a real build directory (racingDirectory journal; size > 0 only)
	open     int      // directory handles handed out and not yet closed
	misuse   []string // use after close, double close
}

func newWorld(root *node, f fault) *world {
	w := &world{root: root, fault: f}
	w.cas = &fakeCAS{w: w, blobs: map[string][]byte{}}
	return w
}

func (w *world) rootDir() *fakeDir { w.open++; return &fakeDir{w: w, n: w.root, loc: ""} }

func join(loc, name string) string {
	if loc == "" {
		return name
	}
	return loc + "/" + name
}

// fakeDir implements builder.UploadableDirectory and
// builder.ParentPopulatableDirectory on a node.
type fakeDir struct {
	w      *world
	n      *node
	loc    string
	closed bool
}

var (
	_ builder.UploadableDirectory        = (*fakeDir)(nil)
	_ builder.ParentPopulatableDirectory = (*fakeDir)(nil)
)

func (d *fakeDir) check(op string) {
	if d.closed {
		d.w.misuse = append(d.w.misuse, op+" on closed directory "+d.loc)
	}
}

func (d *fakeDir) Close() error {
	if d.closed {
		d.w.misuse = append(d.w.misuse, "double close of "+d.loc)
		return nil
	}
	d.closed = true
	d.w.open--
	return nil
}

func (d *fakeDir) enter(name path.Component) (*fakeDir, error) {
	d.check("enter")
	c := d.n.children[name.String()]
	if c == nil {
		return nil, syscall.ENOENT
	}
	if c.kind != kDir {
		return nil, syscall.ENOTDIR
	}
	d.w.open++
	return &fakeDir{w: d.w, n: c, loc: join(d.loc, name.String())}, nil
}

func (d *fakeDir) EnterUploadableDirectory(name path.Component) (builder.UploadableDirectory, error) {
	c, err := d.enter(name)
	if err != nil {
		return nil, err
	}
	return c, nil
}

func (d *fakeDir) EnterParentPopulatableDirectory(name path.Component) (builder.ParentPopulatableDirectory, error) {
	c, err := d.enter(name)
	if err != nil {
		return nil, err
	}
	return c, nil
}

func (d *fakeDir) Mkdir(name path.Component, perm os.FileMode) error {
	d.check("mkdir")
	l := join(d.loc, name.String())
	d.w.mkdirs = append(d.w.mkdirs, l)
	if d.w.fault.kind == faultMkdir && d.w.fault.arg == l {
		d.w.hit = true
		return syscall.EIO
	}
	if d.n.children[name.String()] != nil {
		return syscall.EEXIST
	}
	d.n.children[name.String()] = newDir()
	return nil
}

func fileInfo(name string, n *node) filesystem.FileInfo {
	t := filesystem.FileTypeOther
	switch n.kind {
	case kFile:
		t = filesystem.FileTypeRegularFile
	case kSymlink:
		t = filesystem.FileTypeSymlink
	case kDir:
		t = filesystem.FileTypeDirectory
	case kFifo:
		t = filesystem.FileTypeFIFO
	}
	return filesystem.NewFileInfo(path.MustNewComponent(name), t, n.kind == kFile && n.exec)
}

func (d *fakeDir) Lstat(name path.Component) (filesystem.FileInfo, error) {
	d.check("lstat")
	l := join(d.loc, name.String())
	d.w.lstats = append(d.w.lstats, l)
	if d.w.fault.kind == faultLstat && d.w.fault.arg == l {
		d.w.hit = true
		return filesystem.FileInfo{}, syscall.EIO
	}
	c := d.n.children[name.String()]
	if c == nil {
		return filesystem.FileInfo{}, syscall.ENOENT
	}
	return fileInfo(name.String(), c), nil
}

func (d *fakeDir) ReadDir() ([]filesystem.FileInfo, error) {
	d.check("readdir")
	d.w.readDirs = append(d.w.readDirs, d.loc)
	if d.w.fault.kind == faultReadDir && d.w.fault.arg == d.loc {
		d.w.hit = true
		return nil, syscall.EIO
	}
	var l []filesystem.FileInfo
	for _, k := range d.n.names() {
		l = append(l, fileInfo(k, d.n.children[k]))
	}
	return l, nil
}

func (d *fakeDir) Readlink(name path.Component) (path.Parser, error) {
	d.check("readlink")
	c := d.n.children[name.String()]
	if c == nil {
		return nil, syscall.ENOENT
	}
	if c.kind != kSymlink {
		return nil, syscall.EINVAL
	}
	return path.UNIXFormat.NewParser(c.data), nil
}

func (d *fakeDir) UploadFile(ctx context.Context, name path.Component, digestFunction digest.Function, writableFileUploadDelay <-chan struct{}) (digest.Digest, error) {
	d.check("uploadfile")
	c := d.n.children[name.String()]
	if c == nil {
		return digest.BadDigest, syscall.ENOENT
	}
	if c.kind == kDir {
		return digest.BadDigest, syscall.EISDIR
	}
	if c.kind != kFile {
		return digest.BadDigest, syscall.EINVAL
	}
	// The digest is computed with the real digest function handed in by
	// the code under test; the oracle recomputes it with crypto/sha256.
	g := digestFunction.NewGenerator(int64(len(c.data)))
	if _, err := g.Write([]byte(c.data)); err != nil {
		return digest.BadDigest, err
	}
	dg := g.Sum()
	if err := d.w.cas.Put(ctx, dg, buffer.NewValidatedBufferFromByteSlice([]byte(c.data))); err != nil {
		return digest.BadDigest, err
	}
	return dg, nil
}

// ---------------------------------------------------------------------------
// Fake CAS

type fakeCAS struct {
	w     *world
	blobs map[string][]byte // "hash-size" -> bytes
	puts  []string          // keys in call order (including failed ones)
}

func casKey(hash string, size int64) string { return fmt.Sprintf("%s-%d", hash, size) }

// Put behaves like a real CAS client: it does nothing for a context that is
// already done, and it consumes the buffer completely through the buffer
// layer - buffers that carry validation (NewCASBufferFromReader etc.) report
// a checksum or size mismatch here and nothing is stored.
func (c *fakeCAS) Put(ctx context.Context, dg digest.Digest, b buffer.Buffer) error {
	if err := ctx.Err(); err != nil {
		b.Discard()
		return status.FromContextError(err).Err()
	}
	data, err := b.ToByteSlice(1 << 20)
	if err != nil {
		return err
	}
	k := casKey(dg.GetHashString(), dg.GetSizeBytes())
	c.puts = append(c.puts, k)
	f := &c.w.fault
	if (f.kind == faultPutAll || (f.kind == faultPutFirst && !c.w.hit)) && f.arg == k {
		c.w.hit = true
		return syscall.EIO
	}
	c.blobs[k] = append([]byte(nil), data...)
	return nil
}

func (c *fakeCAS) Get(ctx context.Context, dg digest.Digest) buffer.Buffer {
	if b, ok := c.blobs[casKey(dg.GetHashString(), dg.GetSizeBytes())]; ok {
		return buffer.NewValidatedBufferFromByteSlice(b)
	}
	return buffer.NewBufferFromError(syscall.ENOENT)
}

func (c *fakeCAS) GetFromComposite(ctx context.Context, parentDigest, childDigest digest.Digest, slicer slicing.BlobSlicer) buffer.Buffer {
	return buffer.NewBufferFromError(syscall.ENOSYS)
}

func (c *fakeCAS) FindMissing(ctx context.Context, digests digest.Set) (digest.Set, error) {
	return digest.EmptySet, nil
}

func (c *fakeCAS) GetCapabilities(ctx context.Context, instanceName digest.InstanceName) (*remoteexecution.ServerCapabilities, error) {
	return nil, syscall.ENOSYS
}
