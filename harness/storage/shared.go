package storage

import (
	"context"
	"fmt"
	"sort"
	"strings"

	"verif/mc"

	re_blobstore "github.com/buildbarn/bb-remote-execution/pkg/blobstore"
	"github.com/buildbarn/bb-storage/pkg/digest"

	"golang.org/x/sync/semaphore"
)

// storeShared: ONE batching store used by TWO goroutines at the same time
// (the store has a lock: it is meant to be shared). Each thread Puts its
// blobs and flushes; when both are done a third thread flushes once more.
// Every interleaving of the two threads at the store's lock operations and
// around the fake CAS calls (a thread parked inside FindMissing / Put of the
// CAS while the other one calls into the store), up to the deviation bound
// (preemptions + injected faults).
//
// Oracle (the flush contract for a shared store; obligations are shared,
// because the store reports the failure of a batch to whichever caller comes
// next):
//   - a flush that returns nil: every Put acknowledged BEFORE THAT FLUSH WAS
//     CALLED, and not covered by an earlier flush, is in the CAS;
//   - a flush that returns an error reports the failure of whatever was
//     acknowledged up to its return (those obligations are discharged);
//   - after the final flush every buffer handed in was released exactly once.
type sharedMonitor struct {
	w *world
	// owed holds the acknowledged Puts (serial number -> blob name) not
	// yet covered by a flush return (protected by w.mu).
	owed   map[int]string
	serial int
}

func (m *sharedMonitor) acked(name string) {
	m.w.mu.Lock()
	m.owed[m.serial] = name
	m.serial++
	m.w.mu.Unlock()
}

func (m *sharedMonitor) flush(ctx context.Context, who string, flusher func(context.Context) error) error {
	w := m.w
	w.mu.Lock()
	var before []int
	for k := range m.owed {
		before = append(before, k)
	}
	sort.Ints(before)
	w.mu.Unlock()
	w.scope(ctx, 1)
	err := flusher(ctx)
	w.scope(ctx, -1)
	w.mu.Lock()
	var missing []string
	if err != nil {
		m.owed = map[int]string{}
	} else {
		for _, k := range before {
			n, owed := m.owed[k]
			if !owed {
				continue // covered by a flush that returned in between
			}
			if _, ok := w.cas[w.key(w.digests[n])]; !ok {
				missing = append(missing, n)
			}
			delete(m.owed, k)
		}
	}
	cas := w.casNamesLocked()
	var faults []string
	if cur := actionOf(ctx); cur != nil {
		faults = append(faults, cur.faults...)
	}
	w.mu.Unlock()
	w.x.Logf("%s: flush returned %v; CAS=%v", who, err, cas)
	if len(missing) > 0 {
		w.fail("ack/lost-write", "%s: flush returned nil, but blob(s) %v, whose Put on the shared store was acknowledged before this flush was called, are not in the CAS and no flush reported an error since (CAS=%v, faults so far=%v)", who, missing, cas, faults)
	}
	return err
}

func storeShared(batchSize, semWeight int, blobs [2][]string) *mc.Scenario {
	sc := base(fmt.Sprintf("store-shared/batch=%d/sem=%d/%s+%s", batchSize, semWeight, strings.Join(blobs[0], ""), strings.Join(blobs[1], "")))
	sc.PreemptFree = false
	sc.Bounds = map[string]int{"quick": 2, "thorough": 3}
	var g leakGuard
	sc.Build = func(x *mc.X) {
		g.start()
		x.AdoptAnonymous()
		w := newWorld(x)
		w.addCancelEvents(x)
		writer, flusher := re_blobstore.NewBatchedStoreBlobAccess(&fakeCAS{w}, digest.KeyWithoutInstance, batchSize, semaphore.NewWeighted(int64(semWeight)))
		mon := &sharedMonitor{w: w, owed: map[int]string{}}
		// Both threads belong to one action (one context, one monitor
		// record): the store does not tell its callers apart.
		ctx, cancel := context.WithCancel(context.Background())
		st := &actionState{idx: 0, cfg: actionCfg{blobs: append(append([]string{}, blobs[0]...), blobs[1]...)}, cancel: cancel}
		ctx = withAction(ctx, st)
		w.register(st, ctx)
		done := [2]chan struct{}{make(chan struct{}), make(chan struct{})}
		for i := 0; i < 2; i++ {
			i := i
			name := fmt.Sprintf("T%d", i+1)
			x.Go(name, func() {
				defer close(done[i])
				acked := 0
				for _, b := range blobs[i] {
					w.scope(ctx, 1)
					err := writer.Put(ctx, w.digests[b], w.newBuffer(ctx, b))
					w.scope(ctx, -1)
					if err == nil {
						mon.acked(b)
						acked++
					}
				}
				err := mon.flush(ctx, name, flusher)
				x.Outcome("%s:acked=%d flusherr=%v", name, acked, err != nil)
			})
		}
		x.Go("F", func() {
			<-done[0]
			<-done[1]
			err := mon.flush(ctx, "final", flusher)
			w.checkBuffers(st, "after the final flush")
			w.unregister(st)
			w.mu.Lock()
			n := len(st.faults)
			w.mu.Unlock()
			cancel()
			x.Outcome("final:flusherr=%v faults=%d", err != nil, n)
		})
	}
	sc.Finish = g.finish
	return sc
}
