package schedseq

import (
	"fmt"
	"math/big"
	"sort"
	"strings"
	"time"

	"google.golang.org/grpc/codes"
)

// Reference model: an independent, deliberately naive statement of the
// documented scheduling policy (bb_scheduler.proto, doc comments of
// in_memory_build_queue.go) and of the documented routing rules. It keeps
// flat lists and recomputes everything from scratch; no heaps, no cached
// priorities, no floating point.

type pqKey struct{ prefix, platform string }

type scqKey struct {
	pqKey
	sc uint32
}

func (k scqKey) String() string { return fmt.Sprintf("%q/%s/%d", k.prefix, k.platform, k.sc) }

const (
	tQueued = iota
	tHanded
	tExecuting
	tDone
)

// mOp is one operation: the membership of a task in one invocation. A task
// has one operation per invocation that requested its action while it was
// in flight (in-flight deduplication); the first one is created together
// with the task.
type mOp struct {
	t    *mTask
	path []string
	prio int32
	at   time.Time // time of the Execute call that created the operation
	// attached: the operation joined its task while the task was already
	// executing.
	attached bool
}

type mTask struct {
	hash       string
	inst       string
	platform   string
	ops        []*mOp // in order of arrival; never empty
	dur        time.Duration
	queuedAt   time.Time
	scIdx      int
	scq        scqKey
	selLargest bool
	state      int
	worker     string
	handSet    []string
	letter     string
	share      string // name of the shared (deduplicatable) action, "" for a one-off action
	opNames    []string // names of its operations, as reported to the clients
}

func (t *mTask) opAt(path []string) *mOp {
	for _, o := range t.ops {
		if pathStr(o.path) == pathStr(path) {
			return o
		}
	}
	return nil
}

// under reports whether the task has an operation in the invocation path or
// in one nested below it.
func (t *mTask) under(path []string) bool {
	for _, o := range t.ops {
		if hasPrefixPath(o.path, path) {
			return true
		}
	}
	return false
}

// commonPath is the deepest invocation all operations of the task are part
// of ("lowest common ancestor").
func (t *mTask) commonPath() []string {
	p := append([]string(nil), t.ops[0].path...)
	for _, o := range t.ops[1:] {
		p = p[:commonPrefixLen(p, o.path)]
	}
	return p
}

func (t *mTask) paths() string {
	var l []string
	for _, o := range t.ops {
		l = append(l, pathStr(o.path))
	}
	return "[" + strings.Join(l, " ") + "]"
}

// span is a set-valued point in time: the exact value is known to lie in
// {lo, hi} (lo <= hi). Used where the statement does not say which of two
// instants counts.
type span struct{ lo, hi time.Time }

func at(t time.Time) span { return span{t, t} }

type mWorker struct {
	name        string
	id          map[string]string
	scq         scqKey
	inCall      bool
	task        *mTask
	hasLast     bool
	lastPath    []string
	stick       []span // per level: when the worker started serving its invocation of that level
	terminating bool
	hasCleanup  bool
	cleanupAt   time.Time
	expectErr   codes.Code
}

type mScq struct {
	key          scqKey
	mayBeRemoved bool
	workers      map[string]*mWorker
	drains       map[string]map[string]string
	hasRemoval   bool
	removalAt    time.Time
	queued       []*mOp          // operations of queued tasks, in order of arrival
	nodes        map[string]span // invocation path -> last time an operation of it was started
}

type mPq struct {
	key    pqKey
	limits []time.Duration
	scqs   map[uint32]*mScq
}

type model struct {
	start time.Time
	now   time.Time
	wt    time.Duration // worker-with-no-synchronizations timeout
	qt    time.Duration // platform-queue-with-no-workers timeout (= start-up grace period)
	pqs   map[pqKey]*mPq
	tasks map[string]*mTask
	// ignoreWindow makes admissible() treat every stickiness window as
	// open (only used to classify a violation).
	ignoreWindow bool
	// loosePrio makes childInfos() attribute to a child invocation the
	// priorities of ALL operations queued below it instead of the priority
	// of the operation it would hand out next (only used to classify a
	// violation).
	loosePrio bool
	// ignoreAttached makes execCount() disregard operations that joined an
	// executing task through in-flight deduplication (only used to classify
	// a violation).
	ignoreAttached bool
	// violations detected while updating the model are reported through fail.
	fail func(prop, fp, format string, args ...any)
}

func newModel(start time.Time, wt, qt time.Duration, fail func(prop, fp, format string, args ...any)) *model {
	return &model{start: start, now: start, wt: wt, qt: qt, pqs: map[pqKey]*mPq{}, tasks: map[string]*mTask{}, fail: fail}
}

func pathStr(p []string) string { return strings.Join(p, "/") }

func hasPrefixPath(p, prefix []string) bool {
	if len(prefix) > len(p) {
		return false
	}
	for i := range prefix {
		if p[i] != prefix[i] {
			return false
		}
	}
	return true
}

func commonPrefixLen(a, b []string) int {
	n := 0
	for n < len(a) && n < len(b) && a[n] == b[n] {
		n++
	}
	return n
}

func workerMatches(id, pattern map[string]string) bool {
	for k, v := range pattern {
		if id[k] != v {
			return false
		}
	}
	return true
}

func (m *model) sortedPqKeys() []pqKey {
	var l []pqKey
	for k := range m.pqs {
		l = append(l, k)
	}
	sort.Slice(l, func(i, j int) bool {
		if l[i].prefix != l[j].prefix {
			return l[i].prefix < l[j].prefix
		}
		return l[i].platform < l[j].platform
	})
	return l
}

func (pq *mPq) sizeClasses() []uint32 {
	var l []uint32
	for sc := range pq.scqs {
		l = append(l, sc)
	}
	sort.Slice(l, func(i, j int) bool { return l[i] < l[j] })
	return l
}

func (q *mScq) sortedWorkers() []*mWorker {
	var l []*mWorker
	for _, w := range q.workers {
		l = append(l, w)
	}
	sort.Slice(l, func(i, j int) bool { return l[i].name < l[j].name })
	return l
}

func (m *model) scq(k scqKey) *mScq {
	if pq := m.pqs[k.pqKey]; pq != nil {
		return pq.scqs[k.sc]
	}
	return nil
}

func (m *model) addPq(k pqKey, limits []time.Duration) *mPq {
	pq := &mPq{key: k, limits: limits, scqs: map[uint32]*mScq{}}
	m.pqs[k] = pq
	return pq
}

func (m *model) addScq(pq *mPq, sc uint32, mayBeRemoved bool) *mScq {
	q := &mScq{key: scqKey{pq.key, sc}, mayBeRemoved: mayBeRemoved, workers: map[string]*mWorker{},
		drains: map[string]map[string]string{}, nodes: map[string]span{}}
	pq.scqs[sc] = q
	return q
}

// predeclare mirrors RegisterPredeclaredPlatformQueue.
func (m *model) predeclare(k pqKey, limits []time.Duration, sizeClasses []uint32) {
	pq := m.addPq(k, limits)
	for _, sc := range sizeClasses {
		m.addScq(pq, sc, false)
	}
}

// ---------------------------------------------------------------------------
// Routing (C05)

func instancePrefixOf(prefix, inst string) bool {
	return prefix == "" || inst == prefix || strings.HasPrefix(inst, prefix+"/")
}

// route is the reference longest-prefix function over the currently
// registered platform queues.
func (m *model) route(inst, platform string) *mPq {
	var best *mPq
	for _, k := range m.sortedPqKeys() {
		if k.platform != platform || !instancePrefixOf(k.prefix, inst) {
			continue
		}
		if best == nil || len(k.prefix) > len(best.key.prefix) {
			best = m.pqs[k]
		}
	}
	return best
}

func suffixOf(prefix, inst string) string {
	if prefix == "" {
		return inst
	}
	if inst == prefix {
		return ""
	}
	return inst[len(prefix)+1:]
}

// ---------------------------------------------------------------------------
// Time: lazily executed expirations (workers that stopped synchronizing,
// worker-created size class queues without workers).

func (m *model) expire(now time.Time) {
	if !now.After(m.now) {
		return
	}
	m.now = now
	for {
		// Find the earliest due expiration.
		var bestW *mWorker
		var bestQ *mScq
		var bestT time.Time
		found := false
		for _, pk := range m.sortedPqKeys() {
			pq := m.pqs[pk]
			for _, sc := range pq.sizeClasses() {
				q := pq.scqs[sc]
				if q.hasRemoval && !q.removalAt.After(now) && (!found || q.removalAt.Before(bestT)) {
					bestQ, bestW, bestT, found = q, nil, q.removalAt, true
				}
				for _, w := range q.sortedWorkers() {
					if w.hasCleanup && !w.cleanupAt.After(now) && (!found || w.cleanupAt.Before(bestT)) {
						bestW, bestQ, bestT, found = w, q, w.cleanupAt, true
					}
				}
			}
		}
		if !found {
			return
		}
		if bestW != nil {
			w, q := bestW, bestQ
			if t := w.task; t != nil {
				t.state = tDone
				w.task = nil
			}
			delete(q.workers, w.name)
			if len(q.workers) == 0 && q.mayBeRemoved {
				q.hasRemoval = true
				q.removalAt = w.cleanupAt.Add(m.qt)
			}
			m.gc(q)
		} else {
			q := bestQ
			for _, o := range q.queued {
				o.t.state = tDone
			}
			q.queued = nil
			pq := m.pqs[q.key.pqKey]
			delete(pq.scqs, q.key.sc)
			if len(pq.scqs) == 0 {
				delete(m.pqs, pq.key)
			}
		}
	}
}

// gc forgets invocations that have neither queued nor executing operations
// and that no worker remembers as the one it last served.
func (m *model) gc(q *mScq) {
	for ps := range q.nodes {
		var p []string
		if ps != "" {
			p = strings.Split(ps, "/")
		}
		alive := false
		for _, o := range q.queued {
			if hasPrefixPath(o.path, p) {
				alive = true
			}
		}
		for _, w := range q.workers {
			if w.task != nil && w.task.under(p) {
				alive = true
			}
			if w.hasLast && hasPrefixPath(w.lastPath, p) {
				alive = true
			}
		}
		if !alive {
			delete(q.nodes, ps)
		}
	}
}

func (m *model) touchNodes(q *mScq, path []string, started bool) {
	for i := 1; i <= len(path); i++ {
		ps := pathStr(path[:i])
		if _, ok := q.nodes[ps]; !ok || started {
			q.nodes[ps] = at(m.now)
		}
	}
}

// attachNodes records that an operation of invocation path was attached to
// a task that is already executing: whether that counts as the invocation
// (and the invocations it is nested in) being "served" now is left open.
func (m *model) attachNodes(q *mScq, path []string) {
	m.touchNodes(q, path, false)
	for i := 1; i <= len(path); i++ {
		ps := pathStr(path[:i])
		n := q.nodes[ps]
		n.hi = m.now
		q.nodes[ps] = n
	}
}

// ---------------------------------------------------------------------------
// Drains

func (w *mWorker) drained(q *mScq) bool {
	if w.terminating {
		return true
	}
	for _, p := range q.drains {
		if workerMatches(w.id, p) {
			return true
		}
	}
	return false
}

// waiting reports whether the worker is blocked in Synchronize and eligible
// for work.
func (w *mWorker) waiting(q *mScq) bool {
	return w.inCall && w.task == nil && !w.drained(q)
}

// ---------------------------------------------------------------------------
// The documented policy (C04)

// cmpScore compares (ea)*2^(pa/100) with (eb)*2^(pb/100) exactly: -1, 0, +1,
// or 2 when the two are mathematically equal although the priorities differ
// (then the floating point implementation may legitimately decide either way).
func cmpScore(ea int, pa int32, eb int, pb int32) int {
	if pa == pb {
		switch {
		case ea < eb:
			return -1
		case ea > eb:
			return 1
		}
		return 0
	}
	lo := pa
	if pb < lo {
		lo = pb
	}
	// Compare ea^100 * 2^(pa-lo) with eb^100 * 2^(pb-lo): only the
	// difference of the priorities matters (64 bit: the full int32 range
	// of REv2 priorities is allowed).
	l := new(big.Int).Exp(big.NewInt(int64(ea)), big.NewInt(100), nil)
	l.Lsh(l, uint(int64(pa)-int64(lo)))
	r := new(big.Int).Exp(big.NewInt(int64(eb)), big.NewInt(100), nil)
	r.Lsh(r, uint(int64(pb)-int64(lo)))
	switch c := l.Cmp(r); {
	case c < 0:
		return -1
	case c > 0:
		return 1
	}
	return 2
}

func (m *model) execCount(q *mScq, path []string) int {
	n := 0
	for _, w := range q.workers {
		// Executing WORKERS: a worker counts once, however many
		// operations of the invocation its task carries.
		if w.task == nil {
			continue
		}
		for _, o := range w.task.ops {
			if hasPrefixPath(o.path, path) && !(m.ignoreAttached && o.attached) {
				n++
				break
			}
		}
	}
	return n
}

// bestDirect returns the operations queued directly in the invocation that
// may go first: priority, then longest expected duration, then oldest; ties
// on all three are left open.
func bestDirect(direct []*mOp) []*mOp {
	var res []*mOp
	for _, t := range direct {
		ok := true
		for _, o := range direct {
			if o != t && directBefore(o, t) {
				ok = false
			}
		}
		if ok {
			res = append(res, t)
		}
	}
	return res
}

type childInfo struct {
	key   string
	e     int
	prios []int32
	last  span
}

// cmpChildren compares the scores of two children; 2 = ambiguous.
func cmpChildren(a, b *childInfo) int {
	res := -3
	for _, pa := range a.prios {
		for _, pb := range b.prios {
			r := cmpScore(a.e, pa, b.e, pb)
			if r == 2 || (res != -3 && r != res) {
				return 2
			}
			res = r
		}
	}
	return res
}

// definitelyBefore: o has the lower score, or the same score and was served
// less recently.
func definitelyBefore(o, c *childInfo) bool {
	r := cmpChildren(o, c)
	return r == -1 || (r == 0 && o.last.hi.Before(c.last.lo))
}

// queuedChildSet returns the keys of the child invocations of path that have
// queued operations.
func queuedChildSet(q *mScq, path []string) map[string]bool {
	childSet := map[string]bool{}
	for _, o := range q.queued {
		if hasPrefixPath(o.path, path) && len(o.path) > len(path) {
			childSet[o.path[len(path)]] = true
		}
	}
	return childSet
}

// childInfos computes executing count, priority of the first operation and
// last-served time of the given children of path.
func (m *model) childInfos(pq *mPq, q *mScq, path []string, childSet map[string]bool) []*childInfo {
	var children []*childInfo
	for k := range childSet {
		children = append(children, &childInfo{key: k})
	}
	sort.Slice(children, func(i, j int) bool { return children[i].key < children[j].key })
	for _, c := range children {
		cp := append(append([]string(nil), path...), c.key)
		c.e = m.execCount(q, cp) + 1
		seen := map[int32]bool{}
		cands := m.admissible(pq, q, nil, cp, false)
		if m.loosePrio {
			cands = nil
			for _, o := range q.queued {
				if hasPrefixPath(o.path, cp) {
					cands = append(cands, o)
				}
			}
		}
		for _, t := range cands {
			if !seen[t.prio] {
				seen[t.prio] = true
				c.prios = append(c.prios, t.prio)
			}
		}
		c.last = q.nodes[pathStr(cp)]
	}
	return children
}

// age of a queued operation: the time its task was queued, or - for an
// operation attached later by in-flight deduplication - possibly the time of
// its own Execute call ("oldest" is not defined more precisely).
func (o *mOp) age() span { return span{o.t.queuedAt, o.at} }

// directBefore: the documented order of operations queued in one invocation
// (true only when a definitely goes before b).
func directBefore(a, b *mOp) bool {
	if a.prio != b.prio {
		return a.prio < b.prio
	}
	if a.t.dur != b.t.dur {
		return a.t.dur > b.t.dur
	}
	return a.age().hi.Before(b.age().lo)
}

// admissible returns the queued operations the policy allows to be handed to
// worker w (nil w: no stickiness) from the subtree at path.
func (m *model) admissible(pq *mPq, q *mScq, w *mWorker, path []string, sticky bool) []*mOp {
	var direct []*mOp
	childSet := map[string]bool{}
	for _, o := range q.queued {
		if !hasPrefixPath(o.path, path) {
			continue
		}
		if len(o.path) == len(path) {
			direct = append(direct, o)
		} else {
			childSet[o.path[len(path)]] = true
		}
	}
	if len(direct) > 0 {
		// Operations queued directly in an invocation go first.
		return bestDirect(direct)
	}
	if len(childSet) == 0 {
		return nil
	}
	children := m.childInfos(pq, q, path, childSet)
	// Lowest score wins, ties go to the least recently served one.
	var chosen []*childInfo
	for _, c := range children {
		ok := true
		for _, o := range children {
			if o == c {
				continue
			}
			if definitelyBefore(o, c) {
				ok = false
			}
		}
		if ok {
			chosen = append(chosen, c)
		}
	}
	// Stickiness: within the window of this level, the invocation the
	// worker last served wins a tie (and only a tie). The window starts
	// when the worker started serving that invocation and is not
	// restarted by continuing to serve it.
	level := len(path)
	if sticky && w != nil && w.hasLast && level < len(w.lastPath) && level < len(pq.limits) {
		var s *childInfo
		for _, c := range children {
			if c.key == w.lastPath[level] {
				s = c
			}
		}
		// The starting time may be set-valued (see assign): the window
		// is certainly open, possibly open, or closed.
		certainly := w.stick[level].lo.Add(pq.limits[level]).After(m.now)
		possibly := w.stick[level].hi.Add(pq.limits[level]).After(m.now)
		if m.ignoreWindow {
			certainly, possibly = true, true
		}
		if s != nil && possibly {
			tie, ambiguous := true, false
			for _, o := range children {
				if o == s {
					continue
				}
				switch cmpChildren(o, s) {
				case -1:
					tie = false
				case 2:
					ambiguous = true
				}
			}
			if tie && !ambiguous && certainly {
				chosen = []*childInfo{s}
			} else if tie {
				in := false
				for _, c := range chosen {
					if c == s {
						in = true
					}
				}
				if !in {
					chosen = append(chosen, s)
				}
			}
		}
	}
	var res []*mOp
	for _, c := range chosen {
		cp := append(append([]string(nil), path...), c.key)
		s2 := sticky && w != nil && w.hasLast && level < len(w.lastPath) && level < len(pq.limits) && w.lastPath[level] == c.key
		res = append(res, m.admissible(pq, q, w, cp, s2)...)
	}
	return res
}

// assign records that worker w starts task t. via lists the invocations
// through which the policy could have reached the task (only for a task taken
// from the queue).
func (m *model) assign(pq *mPq, q *mScq, w *mWorker, t *mTask, via [][]string) {
	// Levels of the worker's last invocation it keeps serving: their
	// windows continue, those of the other levels start now. With several
	// admissible routes to a task that is part of several invocations the
	// number of kept levels is only known to lie between two values.
	rmin, rmax := 0, 0
	if w.hasLast {
		for n, p := range via {
			r := commonPrefixLen(w.lastPath, p)
			if r > len(pq.limits) {
				r = len(pq.limits)
			}
			if n == 0 || r < rmin {
				rmin = r
			}
			if n == 0 || r > rmax {
				rmax = r
			}
		}
	}
	for i := rmin; i < len(w.stick); i++ {
		if i >= rmax {
			w.stick[i] = at(m.now)
		} else {
			w.stick[i].hi = m.now
		}
	}
	if via != nil {
		kept := q.queued[:0:0]
		for _, o := range q.queued {
			if o.t != t {
				kept = append(kept, o)
			}
		}
		q.queued = kept
	}
	t.state = tExecuting
	t.worker = w.name
	w.task = t
	w.hasLast = false
	w.lastPath = nil
	for _, o := range t.ops {
		m.touchNodes(q, o.path, true)
	}
	m.gc(q)
}

// schedule places a (new or retried) task: direct hand-over to a waiting
// worker that last served the most closely related invocation, or queueing.
func (m *model) schedule(q *mScq, t *mTask) {
	t.scq = q.key
	for _, o := range t.ops {
		o.attached = false
		m.touchNodes(q, o.path, false)
	}
	// "Preferring a worker that last served the most closely related
	// invocation". For a task that is part of several invocations (retry of
	// a deduplicated task on the largest size class) the statement is
	// unambiguous this far: a waiting worker whose last invocation shares a
	// LONGER prefix with some invocation of the task goes before one that
	// shares only a shorter prefix (e.g. just the root) with all of them.
	// Closeness can also be read as the number of levels between an
	// invocation of the task and the common ancestor; the two readings only
	// differ when the task's invocations have different depths, in which
	// case the best workers under either reading are accepted. Among equally
	// close workers the choice is free.
	type cand struct {
		name     string
		cp, dist int
	}
	var cands []cand
	bestCp, bestDist := -1, -1
	for _, w := range q.sortedWorkers() {
		if !w.waiting(q) {
			continue
		}
		c := cand{name: w.name, cp: -1, dist: -1}
		for _, o := range t.ops {
			cp := commonPrefixLen(w.lastPath, o.path)
			if cp > c.cp {
				c.cp = cp
			}
			if d := len(o.path) - cp; c.dist < 0 || d < c.dist {
				c.dist = d
			}
		}
		if c.cp > bestCp {
			bestCp = c.cp
		}
		if bestDist < 0 || c.dist < bestDist {
			bestDist = c.dist
		}
		cands = append(cands, c)
	}
	var set []string
	for _, c := range cands {
		if c.cp == bestCp || c.dist == bestDist {
			set = append(set, c.name)
		}
	}
	if len(set) > 0 {
		t.state = tHanded
		t.handSet = set
	} else {
		t.state = tQueued
		t.queuedAtFix(m.now)
		q.queued = append(q.queued, t.ops...)
	}
}

func (t *mTask) queuedAtFix(now time.Time) {
	// The queued timestamp of a task is the time of its Execute call; it
	// does not change on a retry.
	if t.queuedAt.IsZero() {
		t.queuedAt = now
	}
}

// inFlight returns the task against which a request for the action hash is
// deduplicated: the task of that action which is queued or executing.
func (m *model) inFlight(hash string) *mTask {
	if t := m.tasks[hash]; t != nil && t.state != tDone {
		return t
	}
	return nil
}

// execute mirrors an Execute call: returns the expected rejection code, or
// codes.OK when the request must be accepted, and the task the request ends
// up waiting for (t itself, or the in-flight task of the same action).
func (m *model) execute(t *mTask) (codes.Code, *mTask) {
	req := t.ops[0]
	if old := m.inFlight(t.hash); old != nil {
		// In-flight deduplication: no new task. The requesting
		// invocation becomes part of the existing task, unless it
		// already is.
		q := m.scq(old.scq)
		if old.opAt(req.path) != nil {
			return codes.OK, old
		}
		o := &mOp{t: old, path: req.path, prio: req.prio, at: m.now}
		old.ops = append(old.ops, o)
		if old.state == tQueued {
			m.touchNodes(q, o.path, false)
			q.queued = append(q.queued, o)
		} else {
			// The task is executing: its worker now also is an
			// executing worker of the requesting invocation.
			o.attached = true
			m.attachNodes(q, o.path)
		}
		return codes.OK, old
	}
	pq := m.route(t.inst, t.platform)
	if pq == nil {
		if m.now.Before(m.start.Add(m.qt)) {
			return codes.Unavailable, t
		}
		return codes.FailedPrecondition, t
	}
	scs := pq.sizeClasses()
	i := t.scIdx
	if i >= len(scs) {
		i = len(scs) - 1
	}
	t.selLargest = i == len(scs)-1
	t.queuedAt = m.now
	req.at = m.now
	m.tasks[t.hash] = t
	m.schedule(pq.scqs[scs[i]], t)
	return codes.OK, t
}

const (
	syncIdle = iota
	syncCompleteOK
	syncCompleteFail
	// syncExec: non-blocking "still executing" report; changes nothing on
	// its own (the worker receives a queued task only if the scheduler
	// considers it idle, see onSyncReturn/received).
	syncExec
)

// preSync mirrors the entry of a Synchronize call of actor a.
func (m *model) preSync(w *mWorker, kind int) {
	w.expectErr = codes.OK
	pq := m.pqs[w.scq.pqKey]
	var q *mScq
	if pq != nil {
		q = pq.scqs[w.scq.sc]
	}
	if q != nil {
		q.hasRemoval = false
	} else {
		if pq != nil {
			scs := pq.sizeClasses()
			max := scs[len(scs)-1]
			if pq.scqs[max].mayBeRemoved || w.scq.sc > max || (max > 0 && w.scq.sc < 1) {
				w.expectErr = codes.InvalidArgument
				return
			}
		} else {
			pq = m.addPq(w.scq.pqKey, nil)
		}
		q = m.addScq(pq, w.scq.sc, true)
	}
	if _, ok := q.workers[w.name]; !ok {
		// First time this worker is seen (or it was removed meanwhile).
		w.task = nil
		w.hasLast = true
		w.lastPath = nil
		w.terminating = false
		w.stick = make([]span, len(pq.limits))
		q.workers[w.name] = w
	}
	w.hasCleanup = false
	w.inCall = true
	t := w.task
	if t == nil || kind == syncIdle || kind == syncExec {
		return
	}
	// The worker reports completion of its task.
	w.task = nil
	w.hasLast = true
	// The invocation the worker last served: for a task that is part of
	// several invocations, the deepest one they have in common.
	w.lastPath = t.commonPath()
	if kind == syncCompleteFail && !t.selLargest {
		// Retry on the largest size class that exists now.
		scs := pq.sizeClasses()
		t.selLargest = true
		t.worker = ""
		m.schedule(pq.scqs[scs[len(scs)-1]], t)
	} else {
		t.state = tDone
	}
	m.gc(q)
}

func (m *model) registered(w *mWorker) (*mPq, *mScq) {
	pq := m.pqs[w.scq.pqKey]
	if pq == nil {
		return nil, nil
	}
	q := pq.scqs[w.scq.sc]
	if q == nil || q.workers[w.name] != w {
		return pq, nil
	}
	return pq, q
}

// postSyncReturn mirrors the return of a Synchronize call.
func (m *model) postSyncReturn(w *mWorker) {
	w.inCall = false
	if _, q := m.registered(w); q != nil {
		w.hasCleanup = true
		w.cleanupAt = m.now.Add(m.wt)
	}
}

// received checks and records that worker w was told to execute hash.
func (m *model) received(w *mWorker, hash, suffix string) {
	t := m.tasks[hash]
	pq, q := m.registered(w)
	if t == nil || q == nil {
		m.fail("C05", "unknown-task", "worker %s received task %s that the model does not know (or the worker is not registered)", w.name, hash)
		return
	}
	// C05: only matching, undrained workers.
	if t.state == tDone || t.state == tExecuting {
		m.fail("C05", "task-not-pending", "worker %s received task %s (%s) which is already %s", w.name, t.letter, hash[:8], []string{"queued", "handed", "executing on " + t.worker, "done"}[t.state])
		return
	}
	if t.scq != w.scq {
		m.fail("C05", "wrong-queue", "task %s (instance %q platform %s, selected size class queue %v) was handed to worker %s of queue %v", t.letter, t.inst, t.platform, t.scq, w.name, w.scq)
		return
	}
	if want := suffixOf(w.scq.prefix, t.inst); suffix != want {
		m.fail("C05", "instance-name-suffix", "task %s for instance %q handed to worker with prefix %q carries InstanceNameSuffix %q, want %q", t.letter, t.inst, w.scq.prefix, suffix, want)
		return
	}
	if w.drained(q) {
		m.fail("C05", "drained-worker-got-task", "worker %s (terminating=%v, drains=%d) received new task %s", w.name, w.terminating, len(q.drains), t.letter)
		return
	}
	switch t.state {
	case tHanded:
		// C04: direct hand-over prefers the most closely related worker.
		ok := false
		for _, n := range t.handSet {
			if n == w.name {
				ok = true
			}
		}
		if !ok {
			m.fail("C04", "handover-not-closest", "task %s (invocation %v) arriving while workers %v were the most closely related waiting ones was handed to %s (last served %v)", t.letter, t.paths(), t.handSet, w.name, w.lastPath)
			return
		}
		m.assign(pq, q, w, t, nil)
	case tQueued:
		adm := m.admissible(pq, q, w, nil, true)
		var via [][]string
		var names []string
		for _, a := range adm {
			names = append(names, a.t.letter+"#"+a.t.hash[:6]+"@"+pathStr(a.path))
			if a.t == t {
				via = append(via, a.path)
			}
		}
		if len(via) == 0 {
			// Classify the deviation for the fingerprint.
			kind := "other"
			in := func(l []*mOp) bool {
				for _, a := range l {
					if a.t == t {
						return true
					}
				}
				return false
			}
			m.ignoreWindow = true
			always := m.admissible(pq, q, w, nil, true)
			m.ignoreWindow = false
			level := 0
			if len(adm) > 0 {
				for _, o := range t.ops {
					if l := commonPrefixLen(adm[0].path, o.path); l > level {
						level = l
					}
				}
			}
			if in(m.admissible(pq, q, nil, nil, false)) {
				kind = fmt.Sprintf("stickiness-ignored/level%d", level)
			} else if in(always) {
				kind = fmt.Sprintf("stickiness-outside-window/level%d", level)
			} else {
				m.loosePrio = true
				loose := m.admissible(pq, q, w, nil, true)
				m.loosePrio = false
				m.ignoreAttached = true
				unattached := m.admissible(pq, q, w, nil, true)
				m.ignoreAttached = false
				if in(loose) {
					// Explained by scoring a nested invocation with the
					// priority of another of its queued operations than
					// the one it would hand out next.
					kind = "nested-priority-not-of-next-operation"
				} else if in(unattached) {
					// Explained by not counting workers whose task the
					// invocation joined through in-flight deduplication.
					kind = "executing-workers-without-deduplicated"
				}
			}
			op := t.ops[0]
			m.fail("C04", "order/"+kind, "worker %s (last served %v, stickiness started %v ago, limits %v) received %s#%s (invocations %v prio %d dur %v queued@%v), but the documented policy prescribes one of %v; queue: %s",
				w.name, w.lastPath, m.ages(w.stick), pq.limits, t.letter, t.hash[:6], t.paths(), op.prio, t.dur, t.queuedAt.Sub(m.start), names, m.dumpQueue(q))
			return
		}
		m.assign(pq, q, w, t, via)
	}
}

func (m *model) ages(l []span) []string {
	var r []string
	for _, t := range l {
		switch {
		case t.lo.IsZero() && t.hi.IsZero():
			r = append(r, "never")
		case t.lo.Equal(t.hi):
			r = append(r, m.now.Sub(t.lo).String())
		case t.lo.IsZero():
			r = append(r, "never|"+m.now.Sub(t.hi).String())
		default:
			r = append(r, m.now.Sub(t.lo).String()+"|"+m.now.Sub(t.hi).String())
		}
	}
	return r
}

func (m *model) dumpQueue(q *mScq) string {
	var b strings.Builder
	for _, o := range q.queued {
		t := o.t
		fmt.Fprintf(&b, "[%s#%s %v p%d d%v q@%v", t.letter, t.hash[:6], o.path, o.prio, t.dur, t.queuedAt.Sub(m.start))
		if !o.at.Equal(t.queuedAt) {
			fmt.Fprintf(&b, " joined@%v", o.at.Sub(m.start))
		}
		b.WriteString("]")
	}
	b.WriteString(" executing:")
	for _, w := range q.sortedWorkers() {
		if w.task != nil {
			fmt.Fprintf(&b, "[%s:%s]", w.name, w.task.paths())
		}
	}
	b.WriteString(" lastStarted:")
	var ks []string
	for k := range q.nodes {
		ks = append(ks, k)
	}
	sort.Strings(ks)
	for _, k := range ks {
		n := q.nodes[k]
		if n.lo.Equal(n.hi) {
			fmt.Fprintf(&b, "[%s@%v]", k, n.lo.Sub(m.start))
		} else {
			fmt.Fprintf(&b, "[%s@%v|%v]", k, n.lo.Sub(m.start), n.hi.Sub(m.start))
		}
	}
	return b.String()
}

// key is the canonical rendering of the model state (times relative to now,
// tasks without their names).
func (m *model) key() string {
	var b strings.Builder
	rel := func(t time.Time) string {
		if t.IsZero() {
			return "z"
		}
		return fmt.Sprint(int64(t.Sub(m.now) / tickUnit))
	}
	relSpan := func(s span) string {
		if s.lo.Equal(s.hi) {
			return rel(s.lo)
		}
		return rel(s.lo) + "|" + rel(s.hi)
	}
	// Expected duration and ages only matter while a task is queued.
	task := func(t *mTask, queued bool) string {
		var l []string
		for _, o := range t.ops {
			e := fmt.Sprintf("%s p%d", pathStr(o.path), o.prio)
			if queued && !o.at.Equal(t.queuedAt) {
				e += " +" + rel(o.at)
			}
			if o.attached {
				e += "a"
			}
			l = append(l, e)
		}
		r := fmt.Sprintf("%s S%s [%s] i%d L%v", t.inst, t.share, strings.Join(l, ","), t.scIdx, t.selLargest)
		if queued {
			r += fmt.Sprintf(" d%d @%s", t.dur/tickUnit, rel(t.queuedAt))
		}
		return r
	}
	grace := m.start.Add(m.qt).Sub(m.now)
	if grace < 0 {
		grace = 0
	}
	fmt.Fprintf(&b, "M g%d;", int64(grace/tickUnit))
	for _, pk := range m.sortedPqKeys() {
		pq := m.pqs[pk]
		fmt.Fprintf(&b, "PQ %q %s %v{", pk.prefix, pk.platform, pq.limits)
		for _, sc := range pq.sizeClasses() {
			q := pq.scqs[sc]
			fmt.Fprintf(&b, "SC%d r%v", sc, q.mayBeRemoved)
			if q.hasRemoval {
				fmt.Fprintf(&b, " rm@%s", rel(q.removalAt))
			}
			var ds []string
			for d := range q.drains {
				ds = append(ds, d)
			}
			sort.Strings(ds)
			fmt.Fprintf(&b, " D%v Q[", ds)
			// Queued tasks in order of arrival of their first queued
			// operation; the operations of one task together.
			seen := map[*mTask]bool{}
			for _, o := range q.queued {
				if !seen[o.t] {
					seen[o.t] = true
					fmt.Fprintf(&b, "(%s)", task(o.t, true))
				}
			}
			b.WriteString("] N[")
			var ks []string
			for k := range q.nodes {
				ks = append(ks, k)
			}
			sort.Strings(ks)
			for _, k := range ks {
				fmt.Fprintf(&b, "%s@%s,", k, relSpan(q.nodes[k]))
			}
			b.WriteString("] W[")
			for _, w := range q.sortedWorkers() {
				fmt.Fprintf(&b, "(%s c%v t%v", w.name, w.inCall, w.terminating)
				if w.hasCleanup {
					fmt.Fprintf(&b, " cl@%s", rel(w.cleanupAt))
				}
				if t := w.task; t != nil {
					fmt.Fprintf(&b, " X(%s)", task(t, false))
				}
				if w.hasLast {
					fmt.Fprintf(&b, " last=%s", pathStr(w.lastPath))
				}
				for _, s := range w.stick {
					fmt.Fprintf(&b, " s%s", relSpan(s))
				}
				b.WriteString(")")
			}
			b.WriteString("]")
		}
		b.WriteString("}")
	}
	return b.String()
}
