// Package files is the model-checking harness for property C16 (pool-backed
// files live exactly as long as they are referenced; uploads match). The
// system under test is the real PoolBackedFileAllocator of /repo wrapped by the
// real FUSE / NFS stateful handle allocators; everything in this file is a
// hand-written fake of its environment.
package files

import (
	"bytes"
	"context"
	"fmt"
	"io"
	"sync"

	remoteexecution "github.com/bazelbuild/remote-apis/build/bazel/remote/execution/v2"
	"github.com/buildbarn/bb-remote-execution/pkg/filesystem/pool"
	"github.com/buildbarn/bb-storage/pkg/blobstore/buffer"
	"github.com/buildbarn/bb-storage/pkg/blobstore/slicing"
	"github.com/buildbarn/bb-storage/pkg/digest"
	"github.com/buildbarn/bb-storage/pkg/filesystem"
	"github.com/buildbarn/bb-storage/pkg/util"
	"google.golang.org/grpc/codes"
	"google.golang.org/grpc/status"
)

// failFn reports an oracle violation (fingerprint, message).
type failFn func(fingerprint, format string, args ...any)

// ---------------------------------------------------------------------------
// Instrumented file pool

// fakePool is a pool.FilePool whose files live in memory, count Close calls,
// flag every use after Close, and can fail single operations.
type fakePool struct {
	fail  failFn
	files []*poolFile
}

func (p *fakePool) NewFile(holeSource pool.HoleSource, size uint64) (filesystem.FileReadWriter, error) {
	f := &poolFile{pool: p, data: make([]byte, size)}
	f.history = [][]byte{append([]byte(nil), f.data...)}
	p.files = append(p.files, f)
	return f, nil
}

// poolFile is the backing storage of one virtual file. It is not thread
// safe, exactly like real pool files: the virtual file serialises access.
type poolFile struct {
	pool *fakePool
	data []byte
	// closed counts Close calls.
	closed int
	// usesAfterClose counts operations that arrived after Close.
	usesAfterClose int
	// history[i] is the contents after the i-th mutation.
	history [][]byte
	// reads counts ReadAt calls (evidence only).
	reads int
	// failReads makes the next ReadAt calls fail (fault injection);
	// readFailures counts the failures that were delivered.
	failReads, readFailures int
	// failWrite makes the next WriteAt fail the way sector based pools
	// do when they run out of space or hit an I/O error: either after
	// having stored the first byte (writePartial: returns 1 together
	// with an error) or before having stored anything (writeNothing).
	// writeFailures counts the failures that were delivered.
	failWrite     writeFault
	writeFailures int
	// failTruncate makes the next Truncate fail without changing
	// anything; truncateFailures counts the delivered failures.
	failTruncate     bool
	truncateFailures int
}

type writeFault int

const (
	writeOK writeFault = iota
	writePartial
	writeNothing
)

func (f *poolFile) version() int { return len(f.history) - 1 }

func (f *poolFile) use(op string) bool {
	if f.closed > 0 {
		f.usesAfterClose++
		f.pool.fail("use-after-close/"+op, "%s on the pool file after its Close(): released storage was touched", op)
		return false
	}
	return true
}

func (f *poolFile) mutated() {
	f.history = append(f.history, append([]byte(nil), f.data...))
}

func (f *poolFile) Close() error {
	if f.closed > 0 {
		f.closed++
		f.pool.fail("double-close", "pool file closed %d times: backing storage must be released exactly once", f.closed)
		return nil
	}
	f.closed = 1
	return nil
}

func (f *poolFile) ReadAt(p []byte, off int64) (int, error) {
	if !f.use("ReadAt") {
		return 0, status.Error(codes.Internal, "pool file used after close")
	}
	f.reads++
	if f.failReads > 0 {
		f.failReads--
		f.readFailures++
		return 0, status.Error(codes.Internal, "injected pool read error")
	}
	if off < 0 {
		return 0, status.Error(codes.InvalidArgument, "negative offset")
	}
	if len(p) == 0 {
		return 0, nil
	}
	if off >= int64(len(f.data)) {
		return 0, io.EOF
	}
	n := copy(p, f.data[off:])
	if off+int64(len(p)) >= int64(len(f.data)) {
		return n, io.EOF
	}
	return n, nil
}

func (f *poolFile) WriteAt(p []byte, off int64) (int, error) {
	if !f.use("WriteAt") {
		return 0, status.Error(codes.Internal, "pool file used after close")
	}
	var err error
	switch fault := f.failWrite; {
	case fault == writeNothing:
		f.failWrite = writeOK
		f.writeFailures++
		return 0, status.Error(codes.ResourceExhausted, "injected pool write error: out of space")
	case fault == writePartial && len(p) > 1:
		f.failWrite = writeOK
		f.writeFailures++
		p = p[:1]
		err = status.Error(codes.ResourceExhausted, "injected pool write error: out of space after 1 byte")
	}
	if end := int(off) + len(p); end > len(f.data) {
		f.data = append(f.data, make([]byte, end-len(f.data))...)
	}
	copy(f.data[off:], p)
	f.mutated()
	return len(p), err
}

func (f *poolFile) Truncate(size int64) error {
	if !f.use("Truncate") {
		return status.Error(codes.Internal, "pool file used after close")
	}
	if f.failTruncate {
		f.failTruncate = false
		f.truncateFailures++
		return status.Error(codes.Internal, "injected pool truncate error")
	}
	if int(size) <= len(f.data) {
		f.data = f.data[:size:size]
	} else {
		f.data = append(f.data, make([]byte, int(size)-len(f.data))...)
	}
	f.mutated()
	return nil
}

func (f *poolFile) Sync() error {
	f.use("Sync")
	return nil
}

func (f *poolFile) Len() (int64, error) {
	if !f.use("Len") {
		return 0, status.Error(codes.Internal, "pool file used after close")
	}
	return int64(len(f.data)), nil
}

func (f *poolFile) GetNextRegionOffset(off int64, regionType filesystem.RegionType) (int64, error) {
	if !f.use("GetNextRegionOffset") {
		return 0, status.Error(codes.Internal, "pool file used after close")
	}
	if off >= int64(len(f.data)) {
		return 0, io.EOF
	}
	if regionType == filesystem.Data {
		return off, nil
	}
	return int64(len(f.data)), nil
}

// ---------------------------------------------------------------------------
// Fake Content Addressable Storage

type casPut struct {
	// who is the name of the harness thread that called Put ("" for
	// calls made outside of managed threads).
	who    string
	key    digest.Digest
	data   []byte
	err    error // error returned by the buffer while reading
	failed bool  // the fake decided to fail this Put
}

// fakeCAS implements blobstore.BlobAccess. Put reads the buffer (which, for
// uploads of pool-backed files, reads through the frozen file descriptor and
// closes it) and remembers the bytes it received.
type fakeCAS struct {
	mu   sync.Mutex
	puts []casPut
	// enter is called at the start of every Put, before anything is
	// read; it is the scheduling point of the concurrent scenarios. It
	// returns false if the Put has to fail.
	enter func(d digest.Digest) bool
	// who names the calling thread.
	who func() string
	// received is called with the bytes right after they were read.
	received func(who string, data []byte)
}

func (c *fakeCAS) GetCapabilities(ctx context.Context, instanceName digest.InstanceName) (*remoteexecution.ServerCapabilities, error) {
	return nil, status.Error(codes.Unimplemented, "fake")
}

func (c *fakeCAS) Get(ctx context.Context, d digest.Digest) buffer.Buffer {
	return buffer.NewBufferFromError(status.Error(codes.Unimplemented, "fake"))
}

func (c *fakeCAS) GetFromComposite(ctx context.Context, parentDigest, childDigest digest.Digest, slicer slicing.BlobSlicer) buffer.Buffer {
	return buffer.NewBufferFromError(status.Error(codes.Unimplemented, "fake"))
}

func (c *fakeCAS) FindMissing(ctx context.Context, digests digest.Set) (digest.Set, error) {
	return digests, nil
}

func (c *fakeCAS) Put(ctx context.Context, d digest.Digest, b buffer.Buffer) error {
	who := ""
	if c.who != nil {
		who = c.who()
	}
	if c.enter != nil && !c.enter(d) {
		// A failing storage backend still owns the buffer.
		b.Discard()
		c.mu.Lock()
		c.puts = append(c.puts, casPut{who: who, key: d, failed: true})
		c.mu.Unlock()
		return status.Error(codes.Unavailable, "fake CAS is down")
	}
	if err := util.StatusFromContext(ctx); err != nil {
		// The caller's context is done: the transfer is refused, the
		// way a gRPC client refuses it; the buffer is still owned.
		b.Discard()
		c.mu.Lock()
		c.puts = append(c.puts, casPut{who: who, key: d, failed: true})
		c.mu.Unlock()
		return err
	}
	data, err := b.ToByteSlice(1 << 20)
	if err == nil && c.received != nil {
		c.received(who, data)
	}
	c.mu.Lock()
	c.puts = append(c.puts, casPut{who: who, key: d, data: data, err: err})
	c.mu.Unlock()
	return err
}

func (c *fakeCAS) count() int {
	c.mu.Lock()
	defer c.mu.Unlock()
	return len(c.puts)
}

// putsSince returns the Puts of thread who with index >= from.
func (c *fakeCAS) putsSince(from int, who string) []casPut {
	c.mu.Lock()
	defer c.mu.Unlock()
	var r []casPut
	for _, p := range c.puts[from:] {
		if p.who == who {
			r = append(r, p)
		}
	}
	return r
}

// digestOf computes the digest of data the way a CAS would validate it.
func digestOf(f digest.Function, data []byte) digest.Digest {
	g := f.NewGenerator(int64(len(data)))
	g.Write(data)
	return g.Sum()
}

var (
	sha256Fn = digest.MustNewFunction("verif", remoteexecution.DigestFunction_SHA256)
	md5Fn    = digest.MustNewFunction("verif", remoteexecution.DigestFunction_MD5)
)

// ---------------------------------------------------------------------------
// Small deterministic helpers

// seqRNG is a deterministic random.ThreadSafeGenerator: inode numbers are
// 1000, 1001, ... in allocation order.
type seqRNG struct {
	mu sync.Mutex
	n  uint64
}

func (r *seqRNG) next() uint64 {
	r.mu.Lock()
	defer r.mu.Unlock()
	r.n++
	return 999 + r.n
}
func (r *seqRNG) Float64() float64                   { return 0 }
func (r *seqRNG) Int64N(n int64) int64               { return int64(r.next()) % n }
func (r *seqRNG) IntN(n int) int                     { return int(r.next()) % n }
func (r *seqRNG) Read(p []byte) (int, error)         { clear(p); return len(p), nil }
func (r *seqRNG) Shuffle(n int, swap func(i, j int)) {}
func (r *seqRNG) Uint32() uint32                     { return uint32(r.next()) }
func (r *seqRNG) Uint64() uint64                     { return r.next() }
func (r *seqRNG) IsThreadSafe()                      {}

// recordingErrorLogger remembers what the code under test logged.
type recordingErrorLogger struct {
	mu   sync.Mutex
	errs []string
}

func (l *recordingErrorLogger) Log(err error) {
	l.mu.Lock()
	l.errs = append(l.errs, err.Error())
	l.mu.Unlock()
}

// canonical renders file contents up to a renaming of the non-zero byte
// values (only equality of bytes matters to the code under test).
func canonical(data []byte) string {
	var names [256]byte
	next := byte(0)
	var b bytes.Buffer
	for _, c := range data {
		if c == 0 {
			b.WriteByte('.')
			continue
		}
		if names[c] == 0 {
			next++
			names[c] = next
		}
		b.WriteByte('a' + names[c] - 1)
	}
	return fmt.Sprintf("%d:%s", len(data), b.String())
}
