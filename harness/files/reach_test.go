package files

import (
	"bytes"
	"fmt"

	"verif/mc"

	"github.com/buildbarn/bb-remote-execution/pkg/filesystem/virtual"
	"github.com/buildbarn/bb-remote-execution/pkg/proto/outputpathpersistency"
	"github.com/buildbarn/bb-storage/pkg/filesystem"
	"github.com/buildbarn/bb-storage/pkg/filesystem/path"
	"google.golang.org/grpc/codes"
	"google.golang.org/grpc/status"
)

// Part 3: Engine A, lock reach. Every entry point of a pool-backed file that
// takes the file's lock for reading or around a computation (each request
// kind of VirtualApply, VirtualGetAttributes, VirtualSeek, VirtualRead) runs
// concurrently with ONE call that takes the lock exclusively, chosen freely
// from a list. Two threads, one call each (two where a reference has to be
// given back), every interleaving at lock granularity. The point is the lock
// discipline (C14: every pair terminates, nothing is left locked; a read lock
// requested while the same call already holds one deadlocks as soon as a
// writer queues in between), with the C16 oracles of part 2 riding along.

type reachCall struct {
	name string
	// needsRef: the call dereferences the pool file; file system servers
	// only issue it for files they hold a reference to, so it is not
	// combined with the removal of the only reference.
	needsRef bool
	spawn    func(w *world)
}

// sawVersion reports whether data is what the file contained at some instant
// from version start on.
func (w *world) sawVersion(start int, match func(contents []byte) bool) bool {
	pf := w.pf()
	for v := start; v < len(pf.history); v++ {
		if match(pf.history[v]) {
			return true
		}
	}
	return false
}

// reachThread spawns thread R running fn, which gets the pool file version
// at which it started.
func reachThread(w *world, fn func(x *mc.X, start int)) {
	w.x.Go("R", func() {
		start := 0
		if w.oracles() {
			start = w.pf().version()
		}
		fn(w.x, start)
	})
}

func reachCalls() []reachCall {
	return []reachCall{
		{name: "apply-upload", spawn: func(w *world) { w.uploader("U") }},
		{name: "apply-stat", spawn: func(w *world) { w.statter() }},
		{name: "apply-persist-node", spawn: func(w *world) {
			reachThread(w, func(x *mc.X, start int) {
				p := virtual.ApplyAppendOutputPathPersistencyDirectoryNode{
					Directory: &outputpathpersistency.Directory{},
					Name:      path.MustNewComponent("f"),
				}
				handled := w.leaf.VirtualApply(&p)
				x.CheckNoLocksHeld("VirtualApply(AppendOutputPathPersistencyDirectoryNode)")
				w.result("R=persist handled=%v files=%d", handled, len(p.Directory.Files))
			})
		}},
		{name: "apply-open-read-frozen", spawn: func(w *world) {
			w.mu.Lock()
			w.uploadsLeft++ // it observes the expiry of the delay like an upload
			w.mu.Unlock()
			reachThread(w, func(x *mc.X, start int) {
				p := virtual.ApplyOpenReadFrozen{WritableFileDelay: w.delay}
				w.acquireBegin()
				w.leaf.VirtualApply(&p)
				x.CheckNoLocksHeld("VirtualApply(OpenReadFrozen)")
				w.acquireEnd(p.Err == nil)
				w.mu.Lock()
				w.uploadsLeft--
				w.mu.Unlock()
				if p.Err != nil {
					if w.oracles() && !(status.Code(p.Err) == codes.NotFound && w.pf().closed > 0) {
						w.fail("frozen-open-failed", "ApplyOpenReadFrozen failed although the file was referenced: %v", p.Err)
					}
					w.result("R=frozen-open-not-found")
					return
				}
				x.ResetLocal("R:frozen-open")
				buf := make([]byte, 8)
				n, _ := p.Reader.ReadAt(buf, 0)
				x.CheckNoLocksHeld("frozen ReadAt")
				if w.oracles() && !w.sawVersion(start, func(c []byte) bool { return bytes.Equal(c, buf[:n]) }) {
					w.fail("frozen-content", "the frozen reader returned %q, which the file never contained since the call started (%q)", buf[:n], w.pf().history[start:])
				}
				x.ResetLocal(fmt.Sprintf("R:frozen-read:%q", buf[:n]))
				w.releaseBegin()
				p.Reader.Close()
				x.CheckNoLocksHeld("frozen Close")
				w.releaseEnd()
				w.result("R=frozen %q", buf[:n])
			})
		}},
		{name: "apply-unsupported", spawn: func(w *world) {
			reachThread(w, func(x *mc.X, start int) {
				p := virtual.ApplyGetContainingDigests{Context: ctx}
				handled := w.leaf.VirtualApply(&p)
				x.CheckNoLocksHeld("VirtualApply(GetContainingDigests)")
				w.result("R=unsupported handled=%v", handled)
			})
		}},
		{name: "getattr", spawn: func(w *world) {
			reachThread(w, func(x *mc.X, start int) {
				var attr virtual.Attributes
				w.leaf.VirtualGetAttributes(ctx, virtual.AttributesMaskSizeBytes|virtual.AttributesMaskChangeID|virtual.AttributesMaskPermissions|virtual.AttributesMaskLinkCount|virtual.AttributesMaskInodeNumber, &attr)
				x.CheckNoLocksHeld("VirtualGetAttributes")
				size, _ := attr.GetSizeBytes()
				if w.oracles() && !w.sawVersion(start, func(c []byte) bool { return uint64(len(c)) == size }) {
					w.fail("attr-size", "VirtualGetAttributes reported size %d, which the file never had since the call started (%q)", size, w.pf().history[start:])
				}
				w.result("R=getattr size=%d", size)
			})
		}},
		{name: "seek", needsRef: true, spawn: func(w *world) {
			reachThread(w, func(x *mc.X, start int) {
				off, s := w.leaf.VirtualSeek(ctx, 0, filesystem.Data)
				x.CheckNoLocksHeld("VirtualSeek")
				if off != nil {
					w.result("R=seek %d status=%d", *off, s)
				} else {
					w.result("R=seek nil status=%d", s)
				}
			})
		}},
		{name: "read", needsRef: true, spawn: func(w *world) {
			reachThread(w, func(x *mc.X, start int) {
				buf := make([]byte, 8)
				n, _, s := w.leaf.VirtualRead(ctx, buf, 0)
				x.CheckNoLocksHeld("VirtualRead")
				if w.oracles() && (s != virtual.StatusOK || !w.sawVersion(start, func(c []byte) bool { return bytes.Equal(c, buf[:n]) })) {
					w.fail("content-lost", "VirtualRead returned %q status=%d, which the file never contained since the call started (%q)", buf[:n], s, w.pf().history[start:])
				}
				w.result("R=read %q", buf[:n])
			})
		}},
	}
}

// exclusiveCall is one call that takes the file's lock exclusively.
type exclusiveCall struct {
	name string
	// needsWriter: only legal through a writable descriptor.
	needsWriter bool
	// dropsLink: removes the directory entry.
	dropsLink bool
	run       func(w *world, x *mc.X)
}

func exclusiveCalls() []exclusiveCall {
	return []exclusiveCall{
		{name: "write", needsWriter: true, run: func(w *world, x *mc.X) {
			n, s := w.leaf.VirtualWrite(ctx, []byte("X"), 1)
			x.CheckNoLocksHeld("VirtualWrite")
			if s != virtual.StatusOK || n != 1 {
				w.fail("write-failed", "VirtualWrite returned n=%d status=%d", n, s)
			}
			w.mu.Lock()
			w.want = append([]byte(nil), w.want...)
			w.want[1] = 'X'
			w.mu.Unlock()
		}},
		{name: "close-w", needsWriter: true, run: func(w *world, x *mc.X) {
			w.releaseBegin()
			w.leaf.VirtualClose(virtual.ShareMaskWrite)
			x.CheckNoLocksHeld("VirtualClose")
			w.releaseEnd()
			w.mu.Lock()
			w.writerDone = true
			w.mu.Unlock()
		}},
		{name: "allocate", needsWriter: true, run: func(w *world, x *mc.X) {
			if s := w.leaf.VirtualAllocate(ctx, 1, 2); s != virtual.StatusOK {
				w.fail("allocate-failed", "VirtualAllocate returned status %d", s)
			}
			x.CheckNoLocksHeld("VirtualAllocate")
			w.mu.Lock()
			w.want = append(append([]byte(nil), w.want...), 0)
			w.mu.Unlock()
		}},
		{name: "link", run: func(w *world, x *mc.X) {
			w.acquireBegin()
			s := w.leaf.Link()
			x.CheckNoLocksHeld("Link")
			w.acquireEnd(s == virtual.StatusOK)
			if s != virtual.StatusOK {
				w.fail("link-failed", "Link returned status %d on a file that has a directory entry", s)
			}
		}},
		{name: "unlink", dropsLink: true, run: func(w *world, x *mc.X) {
			w.releaseBegin()
			w.leaf.Unlink()
			x.CheckNoLocksHeld("Unlink")
			w.releaseEnd()
		}},
		{name: "chmod", run: func(w *world, x *mc.X) {
			var out virtual.Attributes
			s := w.leaf.VirtualSetAttributes(ctx, (&virtual.Attributes{}).SetPermissions(virtual.PermissionsRead|virtual.PermissionsExecute), virtual.AttributesMaskPermissions|virtual.AttributesMaskLinkCount, &out)
			x.CheckNoLocksHeld("VirtualSetAttributes")
			if s != virtual.StatusOK {
				w.fail("chmod-failed", "VirtualSetAttributes(permissions) returned status %d", s)
			}
		}},
		{name: "truncate", run: func(w *world, x *mc.X) {
			var out virtual.Attributes
			s := w.leaf.VirtualSetAttributes(ctx, (&virtual.Attributes{}).SetSizeBytes(1), virtual.AttributesMaskSizeBytes|virtual.AttributesMaskChangeID, &out)
			x.CheckNoLocksHeld("VirtualSetAttributes")
			if s != virtual.StatusOK {
				w.fail("truncate-failed", "VirtualSetAttributes(size) returned status %d", s)
			}
			w.mu.Lock()
			w.want = append([]byte(nil), w.want[:1]...)
			w.mu.Unlock()
		}},
		{name: "open-r,close-r", run: func(w *world, x *mc.X) {
			var attr virtual.Attributes
			w.acquireBegin()
			s := w.leaf.VirtualOpenSelf(ctx, virtual.ShareMaskRead, &virtual.OpenExistingOptions{}, virtual.AttributesMaskSizeBytes|virtual.AttributesMaskLinkCount, &attr)
			x.CheckNoLocksHeld("VirtualOpenSelf")
			w.acquireEnd(s == virtual.StatusOK)
			if s != virtual.StatusOK {
				w.fail("open-failed", "VirtualOpenSelf returned status %d on a file that has a directory entry", s)
				return
			}
			x.ResetLocal("W:opened")
			w.releaseBegin()
			w.leaf.VirtualClose(virtual.ShareMaskRead)
			x.CheckNoLocksHeld("VirtualClose")
			w.releaseEnd()
		}},
	}
}

func reachScenarios() []*mc.Scenario {
	var r []*mc.Scenario
	for _, rc := range reachCalls() {
		for _, nfs := range []bool{false, true} {
			for _, heldWriter := range []bool{false, true} {
				rc := rc
				cfg := worldCfg{nfs: nfs, initial: "ab", cached: true, heldWriter: heldWriter}
				var calls []exclusiveCall
				for _, c := range exclusiveCalls() {
					if c.needsWriter && !heldWriter {
						continue
					}
					if c.dropsLink && rc.needsRef && !heldWriter {
						continue
					}
					calls = append(calls, c)
				}
				name := fmt.Sprintf("reach/%s/%s/%s", rc.name,
					map[bool]string{false: "fuse", true: "nfs"}[nfs],
					map[bool]string{false: "closed", true: "heldwriter"}[heldWriter])
				var cur *world
				r = append(r, &mc.Scenario{
					Name:     name,
					Props:    []string{prop, "C14"},
					Liveness: []string{prop, "C14"},
					Livelock: []string{prop, "C14"},
					Panics:   []string{prop},
					Bounds:   map[string]int{"quick": -1, "thorough": -1},
					Build: func(x *mc.X) {
						cur = newWorld(x, cfg)
						w := cur
						rc.spawn(w)
						x.Go("W", func() {
							c := calls[x.ChooseFree("W.call", len(calls))]
							x.ResetLocal("W:" + c.name)
							c.run(w, x)
							w.result("w=%s", c.name)
						})
					},
					Finish: func(x *mc.X) { cur.finish() },
				})
			}
		}
	}
	return r
}
